(* Lcs.v — the LCS command (redisKeys.go: fnLcs; longestSeq.go), as Redis 7 computes it
   (t_string.c: lcsCommand): the table of prefix LCS lengths, then one walk back from the
   two ends that collects the characters and the matching ranges. Strings are byte strings. *)
From RE Require Import Base Resp State Exec.
From Coq Require Import String.
From Coq Require Import List.
Open Scope string_scope.
Open Scope list_scope.
Open Scope Z_scope.

(* ---------- the table ---------- *)
(* row i of the table: T[i][0..|b|], T[i][j] = LCS length of a[0..i) and b[0..j) *)

(* [next_row x b prev left]: prev = T[i-1][j..], left = T[i][j]; yields T[i][j+1..] *)
Fixpoint next_row (x : N) (b : list N) (prev : list nat) (left : nat) : list nat :=
  match b, prev with
  | y :: b', pd :: ((pu :: _) as prev') =>
    let v := if N.eqb x y then S pd else Nat.max pu left in
    v :: next_row x b' prev' v
  | _, _ => []
  end.

Definition row0 (b : list N) : list nat := repeat O (S (length b)).

(* all rows, row 0 first *)
Fixpoint rows (a b : list N) (prev : list nat) : list (list nat) :=
  match a with
  | [] => []
  | x :: a' => let r := O :: next_row x b prev O in r :: rows a' b r
  end.

Definition table (a b : list N) : list (list nat) := row0 b :: rows a b (row0 b).

Definition cell (t : list (list nat)) (i j : nat) : nat := nth j (nth i t []) O.

Definition lcs_length (a b : list N) : nat := cell (table a b) (length a) (length b).

(* ---------- the walk back ---------- *)
(* a matching range: a[ra_s..ra_e] = b[rb_s..rb_e] (inclusive, 0-based) *)
Record rng := mkRng { ra_s : nat; ra_e : nat; rb_s : nat; rb_e : nat }.

Definition rng_len (r : rng) : nat := S (ra_e r - ra_s r).

(* from (i, j): the characters of the LCS of a[0..i), b[0..j) (left to right) and the ranges in
   the order Redis emits them (from the ends of the strings towards the beginnings).
   cur = the range being extended. fuel >= i + j. *)
Fixpoint walk (fuel : nat) (t : list (list nat)) (a b : list N) (i j : nat) (cur : option rng)
  : list N * list rng :=
  match fuel with
  | O => ([], match cur with Some r => [r] | None => [] end)
  | S f =>
    match i, j with
    | S i', S j' =>
      let x := nth i' a 0%N in
      let y := nth j' b 0%N in
      if N.eqb x y then
        let r := match cur with
                 | None => mkRng i' i' j' j'
                 | Some c => mkRng i' (ra_e c) j' (rb_e c)   (* contiguous: extend backwards *)
                 end in
        if Nat.eqb i' O || Nat.eqb j' O then
          let '(cs, rs) := walk f t a b i' j' None in (cs ++ [x], r :: rs)
        else
          let '(cs, rs) := walk f t a b i' j' (Some r) in (cs ++ [x], rs)
      else
        let l1 := cell t i' j in
        let l2 := cell t i j' in
        let '(cs, rs) := if Nat.ltb l2 l1 then walk f t a b i' j None else walk f t a b i j' None in
        (cs, match cur with Some c => c :: rs | None => rs end)
    | _, _ => ([], match cur with Some r => [r] | None => [] end)
    end
  end.

Definition lcs_walk (a b : list N) : list N * list rng :=
  walk (length a + length b) (table a b) a b (length a) (length b) None.

Definition lcs_string (a b : list N) : list N := fst (lcs_walk a b).
Definition lcs_ranges (a b : list N) : list rng := snd (lcs_walk a b).

(* ---------- the command ---------- *)
Record lcsopts := mkLO { lo_len : bool; lo_idx : bool; lo_min : Z; lo_with : bool }.

Inductive lcsscan := LOk (o : lcsopts) | LSyntax | LNotInt.

Fixpoint scan_lcs (args : list bytes) (o : lcsopts) : lcsscan :=
  match args with
  | [] => LOk o
  | a :: r =>
    if is_kw a "LEN" then scan_lcs r (mkLO true (lo_idx o) (lo_min o) (lo_with o))
    else if is_kw a "IDX" then scan_lcs r (mkLO (lo_len o) true (lo_min o) (lo_with o))
    else if is_kw a "WITHMATCHLEN" then scan_lcs r (mkLO (lo_len o) (lo_idx o) (lo_min o) true)
    else if is_kw a "MINMATCHLEN" then
      match r with
      | n :: r' => match parse_i64 n with
                   | Some z => scan_lcs r' (mkLO (lo_len o) (lo_idx o) (if z <? 0 then 0 else z) (lo_with o))
                   | None => LNotInt
                   end
      | [] => LSyntax
      end
    else LSyntax
  end.

Definition rng_resp (withlen : bool) (r : rng) : resp :=
  let pair s e := RArr [RInt (Z.of_nat s); RInt (Z.of_nat e)] in
  RArr ([pair (ra_s r) (ra_e r); pair (rb_s r) (rb_e r)]
        ++ if withlen then [RInt (Z.of_nat (rng_len r))] else []).

(* a missing key is an empty string *)
Definition lcs_operand (now : Z) (d : db) (k : bytes) : option bytes :=
  match lookup now d k with
  | Some e => str_of e
  | None => Some []
  end.

Definition cmd_lcs (now : Z) (d : db) (args : list bytes) : res :=
  match args with
  | k1 :: k2 :: opts =>
    match scan_lcs opts (mkLO false false 0 false) with
    | LSyntax => (d, syntaxerr)
    | LNotInt => (d, notint)
    | LOk o =>
      match lcs_operand now d k1, lcs_operand now d k2 with
      | Some a, Some b =>
        if lo_idx o && lo_len o then
          (d, err "ERR If you want both the length and indexes, please just use IDX.")
        else if lo_idx o then
          let rs := filter (fun r => Z.leb (lo_min o) (Z.of_nat (rng_len r))) (lcs_ranges a b) in
          (d, RMap [(RBulk (s2b "matches"), RArr (map (rng_resp (lo_with o)) rs));
                    (RBulk (s2b "len"), RInt (Z.of_nat (lcs_length a b)))])
        else if lo_len o then (d, RInt (Z.of_nat (lcs_length a b)))
        else (d, RBulk (lcs_string a b))
      | _, _ => (d, wrongtype)
      end
    end
  | _ => (d, argerr)
  end.
