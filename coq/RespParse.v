(* RespParse.v — the request deserializer (respDeserializer.go: deserializeNext /
   getNextValueEx, findNextLine, peekBulkLine, getCount) mirrored with explicit
   positions, and the connection read loop (clientCxn.go: onWaitForCommand /
   parseCommand / onDispatchCommand).
   Every Go operation that can panic (indexing, slicing, sizing an allocation from
   a client number) is an explicit [Panic] outcome here, so "the parser never
   panics" is a theorem and not a consequence of Gallina being total. *)
From RE Require Import Base.
From Coq Require Import String.
From Coq Require Import List.
Open Scope string_scope.
Open Scope list_scope.
Open Scope nat_scope.

(* values a client can send (the streamed forms "$?", "*?", ... and the scalar
   types double / big number / verbatim / blob error / attribute / push are
   reported as [Unsupported]: they are outside the modelled subset) *)
Inductive pval :=
| PSimple (b : bytes) | PErr (b : bytes) | PInt (z : Z) | PBulk (b : bytes) | PNil
| PArr (l : list pval) | PMap (l : list (pval * pval)) | PSet (l : list pval)
| PBool (b : bool) | PNull.

Inductive presult :=
| Done (v : pval) (next : nat)   (* value and the position after it *)
| Invalid                        (* Go: valid = false — incomplete or malformed, the caller waits for more bytes *)
| Unsupported                    (* outside the modelled subset *)
| Panic (site : string).         (* the Go code would panic here *)

(* content[i], a panic when out of range *)
Definition at_ (c : bytes) (i : nat) : option N := nth_error c i.

(* findNextLine: first p >= pos with p < len - 1, c[p] = CR, c[p+1] = LF; returns p + 2 *)
Fixpoint find_crlf (fuel : nat) (c : bytes) (p : nat) : option nat :=
  match fuel with
  | O => None
  | S f =>
    if Nat.leb (length c) (S p) then None       (* pos >= end where end = len - 1 *)
    else match at_ c p, at_ c (S p) with
         | Some 13%N, Some 10%N => Some (p + 2)
         | _, _ => find_crlf f c (S p)
         end
  end.

Definition sub (c : bytes) (a b : nat) : bytes := firstn (b - a) (skipn a c).  (* c[a:b] *)

(* getCount: ParseInt of the header text, refused when larger than everything received *)
Definition get_count (c : bytes) (hdr : bytes) : option Z :=
  match parse_i64 hdr with
  | Some z => if (Z.of_nat (length c) <? z)%Z then None else Some z
  | None => None
  end.

(* peekBulkLine after the fixes: the declared length is compared with the bytes available *)
Definition peek_bulk (c : bytes) (pos : nat) (len : nat) : presult :=
  if Nat.ltb (length c) (pos + len + 2) then Invalid
  else match at_ c (pos + len), at_ c (pos + len + 1) with
       | Some 13%N, Some 10%N => Done (PBulk (sub c pos (pos + len))) (pos + len + 2)
       | Some _, Some _ => Invalid
       | _, _ => Panic "peekBulkLine: index out of range"
       end.

(* can the value be a Go map key (respIsHashable after respNormalizeKey)? *)
Definition hashable (v : pval) : bool :=
  match v with PArr _ | PMap _ | PSet _ => false | _ => true end.

(* respNormalizeKey: string-like keys become bulk strings *)
Definition normalize_key (v : pval) : pval :=
  match v with PSimple b | PErr b => PBulk b | _ => v end.

Section Parse.
  (* parse n consecutive values starting at pos *)
  Variable parse_at : bytes -> nat -> presult.

  Fixpoint parse_seq (n : nat) (c : bytes) (pos : nat) : option (list pval * nat) + presult :=
    match n with
    | O => inl (Some ([], pos))
    | S n' =>
      match parse_at c pos with
      | Done v p =>
        match parse_seq n' c p with
        | inl (Some (vs, p')) => inl (Some (v :: vs, p'))
        | other => other
        end
      | other => inr other
      end
    end.
End Parse.

Fixpoint pairs_up (l : list pval) : list (pval * pval) :=
  match l with
  | k :: v :: r => (normalize_key k, v) :: pairs_up r
  | _ => []
  end.

Fixpoint keys_ok (l : list pval) : bool :=   (* every key (even position) hashable after normalisation *)
  match l with
  | k :: _ :: r => hashable (normalize_key k) && keys_ok r
  | _ => true
  end.

Fixpoint parse_at (fuel : nat) (c : bytes) (pos : nat) : presult :=
  match fuel with
  | O => Invalid
  | S f =>
    match find_crlf (S (length c)) c pos with
    | None => Invalid
    | Some nxt =>
      let line := sub c pos (nxt - 2) in
      match line with
      | [] => Invalid                                   (* blank line *)
      | t :: body =>
        if N.eqb t 43%N then Done (PSimple body) nxt     (* + *)
        else if N.eqb t 45%N then Done (PErr body) nxt   (* - *)
        else if N.eqb t 58%N then                        (* : *)
          match parse_i64 body with Some z => Done (PInt z) nxt | None => Invalid end
        else if N.eqb t 36%N then                        (* $ *)
          if bytes_eqb body (s2b "?") then Unsupported else
          match get_count c body with
          | None => Invalid
          | Some n => if (n <? 0)%Z then Done PNil nxt else peek_bulk c nxt (Z.to_nat n)
          end
        else if N.eqb t 42%N then                        (* * *)
          if bytes_eqb body (s2b "?") then Unsupported else
          match get_count c body with
          | None => Invalid
          | Some n =>
            if (n <? 0)%Z then Done PNil nxt else
            match parse_seq (parse_at f) (Z.to_nat n) c nxt with
            | inl (Some (vs, p)) => Done (PArr vs) p
            | inl None => Invalid
            | inr r => r
            end
          end
        else if N.eqb t 37%N then                        (* % *)
          if bytes_eqb body (s2b "?") then Unsupported else
          match get_count c body with
          | None => Invalid
          | Some n =>
            if (n <? 0)%Z then Invalid else
            match parse_seq (parse_at f) (2 * Z.to_nat n) c nxt with
            | inl (Some (vs, p)) => if keys_ok vs then Done (PMap (pairs_up vs)) p else Invalid
            | inl None => Invalid
            | inr r => r
            end
          end
        else if N.eqb t 126%N then                       (* ~ *)
          if bytes_eqb body (s2b "?") then Unsupported else
          match get_count c body with
          | None => Invalid
          | Some n =>
            if (n <? 0)%Z then Invalid else
            match parse_seq (parse_at f) (Z.to_nat n) c nxt with
            | inl (Some (vs, p)) =>
              if forallb (fun v => hashable (normalize_key v)) vs then Done (PSet (map normalize_key vs)) p else Invalid
            | inl None => Invalid
            | inr r => r
            end
          end
        else if bytes_eqb line (s2b "#t") then Done (PBool true) nxt
        else if bytes_eqb line (s2b "#f") then Done (PBool false) nxt
        else if bytes_eqb line (s2b "_") then Done PNull nxt
        else if existsb (N.eqb t) [44; 40; 61; 33; 124; 62]%N then Unsupported   (* , ( = ! | > *)
        else Invalid                                     (* "unexpected line" *)
      end
    end
  end.

(* deserializeNext on a buffer: Some (value, consumed length) *)
Definition parse (c : bytes) : presult := parse_at (S (length c)) c 0.

(* what a client writes for one command *)
Definition enc_bulk (b : bytes) : bytes :=
  (36%N :: N_to_bytes (N.of_nat (length b))) ++ [13%N; 10%N] ++ b ++ [13%N; 10%N].
Definition enc_cmd (args : list bytes) : bytes :=
  (42%N :: N_to_bytes (N.of_nat (length args))) ++ [13%N; 10%N] ++ concat (map enc_bulk args).

(* ---------- the connection read loop ---------- *)
(* after each read the loop dispatches every complete command at the head of the buffer,
   one at a time, and keeps the unconsumed tail *)
Fixpoint drain (fuel : nat) (inb : bytes) : list pval * bytes * bool (* panicked *) :=
  match fuel with
  | O => ([], inb, false)
  | S f =>
    match parse inb with
    | Done v n =>
      match n with
      | O => ([], inb, false)            (* length 0 is "nothing parsed" in the Go code *)
      | _ => let '(vs, rest, p) := drain f (skipn n inb) in (v :: vs, rest, p)
      end
    | Panic _ => ([], inb, true)
    | _ => ([], inb, false)
    end
  end.

(* feed the chunks the socket delivers, in order *)
Fixpoint conn_run (chunks : list bytes) (inb : bytes) : list pval * bytes * bool :=
  match chunks with
  | [] => ([], inb, false)
  | ch :: r =>
    let buf := inb ++ ch in
    let '(vs, rest, p) := drain (S (length buf)) buf in
    if p then (vs, rest, true) else
    let '(vs', rest', p') := conn_run r rest in (vs ++ vs', rest', p')
  end.
