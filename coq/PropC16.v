(* PropC16.v — data-race freedom from the protected-by discipline (model: Lockset.v).

   "no two goroutines access the same memory without synchronisation with at least one write" *)
From RE Require Import Base Lockset.
From Coq Require Import List Lia Arith.
Import ListNotations.
Open Scope list_scope.
Open Scope nat_scope.

(* ---------- finite maps and id lists ---------- *)
Lemma nget_nset_same {A} (m : list (N * A)) k v : nget (nset m k v) k = Some v.
Proof.
  induction m as [|[k' v'] m IH]; simpl.
  - rewrite N.eqb_refl; reflexivity.
  - destruct (N.eqb k k') eqn:E; simpl.
    + rewrite N.eqb_refl; reflexivity.
    + rewrite E; exact IH.
Qed.

Lemma nget_nset_other {A} (m : list (N * A)) k k' v : k' <> k -> nget (nset m k v) k' = nget m k'.
Proof.
  intro H. induction m as [|[k0 v0] m IH]; simpl.
  - destruct (N.eqb k' k) eqn:E; auto. apply N.eqb_eq in E; congruence.
  - destruct (N.eqb k k0) eqn:E; simpl.
    + apply N.eqb_eq in E; subst k0. destruct (N.eqb k' k) eqn:E2; auto.
      apply N.eqb_eq in E2; congruence.
    + destruct (N.eqb k' k0); auto.
Qed.

Lemma nget_In {A} (m : list (N * A)) k v : nget m k = Some v -> In (k, v) m.
Proof.
  induction m as [|[k' v'] m IH]; simpl; [discriminate|].
  destruct (N.eqb k k') eqn:E; intro H.
  - apply N.eqb_eq in E. inversion H; subst. left; reflexivity.
  - right; auto.
Qed.

Lemma memN_In x l : memN x l = true <-> In x l.
Proof.
  unfold memN. rewrite existsb_exists. split.
  - intros (y & Hy & E). apply N.eqb_eq in E. subst; exact Hy.
  - intro H. exists x. split; [exact H | apply N.eqb_refl].
Qed.

Lemma In_delN y x l : In y (delN x l) <-> In y l /\ y <> x.
Proof.
  unfold delN. rewrite filter_In. split; intros [H1 H2]; split; auto.
  - intro E; subst. rewrite N.eqb_refl in H2. discriminate.
  - destruct (N.eqb x y) eqn:E; [apply N.eqb_eq in E; congruence | reflexivity].
Qed.

Lemma held_by_set_same h t v : held_by (nset h t v) t = v.
Proof. unfold held_by. rewrite nget_nset_same. reflexivity. Qed.

Lemma held_by_set_other h t t' v : t' <> t -> held_by (nset h t v) t' = held_by h t'.
Proof. intro H. unfold held_by. rewrite nget_nset_other by exact H. reflexivity. Qed.

Lemma owner_free_spec h l : owner_free h l = true -> forall t, ~ In l (held_by h t).
Proof.
  intros H t Hin. unfold held_by in Hin. destruct (nget h t) as [ls|] eqn:E; [|contradiction].
  apply nget_In in E. unfold owner_free in H. rewrite forallb_forall in H.
  specialize (H _ E). simpl in H. apply memN_In in Hin. rewrite Hin in H. discriminate.
Qed.

(* ---------- the lock state after each prefix ---------- *)
(* one event's effect on the lock state (the state transformer inside [run_locks]) *)
Definition lstep (h : held) (e : event) : option held :=
  let '(t, a) := e in
  match a with
  | Acq l => if owner_free h l then Some (nset h t (l :: held_by h t)) else None
  | Rel l => if memN l (held_by h t) then Some (nset h t (delN l (held_by h t))) else None
  | _ => Some h
  end.

Fixpoint lrun (h : held) (tr : list event) : option held :=
  match tr with
  | [] => Some h
  | e :: r => match lstep h e with Some h' => lrun h' r | None => None end
  end.

(* the lock state before the event at position k *)
Definition held_at (tr : list event) (k : nat) : option held := lrun [] (firstn k tr).

Lemma run_locks_cons h t a r ann :
  run_locks h ((t, a) :: r) = Some ann ->
  exists h1 ann', lstep h (t, a) = Some h1 /\ run_locks h1 r = Some ann' /\
                  ann = ((t, a), held_by h t) :: ann'.
Proof.
  cbn [run_locks lstep]. destruct a as [l|l|x|x].
  - destruct (owner_free h l); [|discriminate].
    destruct (run_locks (nset h t (l :: held_by h t)) r) as [x|] eqn:E; [|discriminate].
    intro H; inversion H; subst. eauto.
  - destruct (memN l (held_by h t)); [|discriminate].
    destruct (run_locks (nset h t (delN l (held_by h t))) r) as [x|] eqn:E; [|discriminate].
    intro H; inversion H; subst. eauto.
  - destruct (run_locks h r) as [y|] eqn:E; [|discriminate]. intro H; inversion H; subst. eauto.
  - destruct (run_locks h r) as [y|] eqn:E; [|discriminate]. intro H; inversion H; subst. eauto.
Qed.

Lemma lrun_app a : forall b h h',
  lrun h (a ++ b) = Some h' <-> exists h1, lrun h a = Some h1 /\ lrun h1 b = Some h'.
Proof.
  induction a as [|e a IH]; intros b h h'; simpl.
  - split; [eauto | intros (h1 & H1 & H2); inversion H1; subst; exact H2].
  - destruct (lstep h e) as [h1|]; [apply IH|]. split; [discriminate | intros (h1 & H1 & _); discriminate].
Qed.

(* the annotation computed by run_locks at position k is the set of locks the acting thread
   holds in the state reached after the first k events *)
Lemma run_locks_nth tr : forall h ann k t a,
  run_locks h tr = Some ann -> nth_error tr k = Some (t, a) ->
  exists hk, lrun h (firstn k tr) = Some hk /\ nth_error ann k = Some ((t, a), held_by hk t).
Proof.
  induction tr as [|[t0 a0] tr IH]; intros h ann k t a Hr Hk.
  - destruct k; discriminate.
  - apply run_locks_cons in Hr as (h1 & ann' & Hs & Hr & ->). destruct k as [|k].
    + simpl in Hk. inversion Hk; subst. exists h. split; reflexivity.
    + simpl in Hk. destruct (IH _ _ _ _ _ Hr Hk) as (hk & H1 & H2).
      exists hk. cbn [firstn lrun]. rewrite Hs. split; [exact H1 | exact H2].
Qed.

Lemma run_locks_lrun tr : forall h ann, run_locks h tr = Some ann ->
  exists h', lrun h tr = Some h' /\ length ann = length tr.
Proof.
  induction tr as [|[t a] tr IH]; intros h ann Hr.
  - simpl in Hr. inversion Hr. exists h. auto.
  - apply run_locks_cons in Hr as (h1 & ann' & Hs & Hr & ->).
    destruct (IH _ _ Hr) as (h' & H1 & H2). exists h'. cbn [lrun]. rewrite Hs. simpl. auto.
Qed.

(* ---------- 1. mutual exclusion ---------- *)
Definition excl (h : held) : Prop :=
  forall t1 t2 l, In l (held_by h t1) -> In l (held_by h t2) -> t1 = t2.

Lemma excl_nil : excl [].
Proof. intros t1 t2 l H. unfold held_by in H. simpl in H. contradiction. Qed.

Lemma lstep_excl h e h' : excl h -> lstep h e = Some h' -> excl h'.
Proof.
  intros Hx Hs. destruct e as [t a]. destruct a as [l|l|x|x]; cbn [lstep] in Hs;
    try (inversion Hs; subst; exact Hx).
  - destruct (owner_free h l) eqn:Ho; [|discriminate]. inversion Hs; subst; clear Hs.
    pose proof (owner_free_spec _ _ Ho) as Hfree.
    intros t1 t2 l0 H1 H2.
    destruct (N.eq_dec t1 t) as [->|N1]; destruct (N.eq_dec t2 t) as [->|N2]; auto.
    + rewrite held_by_set_same in H1. rewrite held_by_set_other in H2 by exact N2.
      destruct H1 as [<-|H1]; [exfalso; eapply Hfree; eauto | eapply Hx; eauto].
    + rewrite held_by_set_same in H2. rewrite held_by_set_other in H1 by exact N1.
      destruct H2 as [<-|H2]; [exfalso; eapply Hfree; eauto | eapply Hx; eauto].
    + rewrite held_by_set_other in H1 by exact N1. rewrite held_by_set_other in H2 by exact N2.
      eapply Hx; eauto.
  - destruct (memN l (held_by h t)) eqn:Hm; [|discriminate]. inversion Hs; subst; clear Hs.
    intros t1 t2 l0 H1 H2.
    assert (H1' : In l0 (held_by h t1)).
    { destruct (N.eq_dec t1 t) as [->|N1].
      - rewrite held_by_set_same in H1. apply In_delN in H1. tauto.
      - rewrite held_by_set_other in H1 by exact N1. exact H1. }
    assert (H2' : In l0 (held_by h t2)).
    { destruct (N.eq_dec t2 t) as [->|N2].
      - rewrite held_by_set_same in H2. apply In_delN in H2. tauto.
      - rewrite held_by_set_other in H2 by exact N2. exact H2. }
    eapply Hx; eauto.
Qed.

Lemma lrun_excl tr : forall h h', excl h -> lrun h tr = Some h' -> excl h'.
Proof.
  induction tr as [|e tr IH]; intros h h' Hx Hr.
  - simpl in Hr. inversion Hr; subst; exact Hx.
  - simpl in Hr. destruct (lstep h e) as [h1|] eqn:Hs; [|discriminate].
    eapply IH; [eapply lstep_excl; eauto | exact Hr].
Qed.

Lemma firstn_skipn_split {A} (l : list A) k : l = firstn k l ++ skipn k l.
Proof. symmetry. apply firstn_skipn. Qed.

(* In a well-formed trace, after every prefix the lock state is defined, no lock is held by two
   different threads, and the annotation of the next event is what its thread holds there. *)
Theorem C16_mutex_exclusive tr ann :
  run_locks [] tr = Some ann ->
  forall k, k <= length tr ->
    exists h, held_at tr k = Some h /\
      (forall t1 t2 l, In l (held_by h t1) -> In l (held_by h t2) -> t1 = t2) /\
      (forall t a, nth_error tr k = Some (t, a) -> nth_error ann k = Some ((t, a), held_by h t)).
Proof.
  intros Hr k Hk. destruct (run_locks_lrun _ _ _ Hr) as (hend & Hend & _).
  rewrite (firstn_skipn_split tr k) in Hend. apply lrun_app in Hend as (h & Hh & _).
  exists h. split; [exact Hh|]. split.
  - exact (lrun_excl _ _ _ excl_nil Hh).
  - intros t a Hn. destruct (run_locks_nth _ _ _ _ _ _ Hr Hn) as (hk & H1 & H2).
    unfold held_at in Hh. rewrite Hh in H1. inversion H1; subst. exact H2.
Qed.
Print Assumptions C16_mutex_exclusive.

(* acquiring a lock somebody holds is refused; releasing a lock one does not hold is refused *)
Theorem C16_acquire_excluded h t t' l :
  In l (held_by h t') -> lstep h (t, Acq l) = None.
Proof.
  intro H. cbn [lstep]. destruct (owner_free h l) eqn:Ho; [|reflexivity].
  exfalso. eapply owner_free_spec; eauto.
Qed.
Print Assumptions C16_acquire_excluded.

(* ---------- 2. the lockset discipline orders conflicting accesses ---------- *)
(* a lock that t2 did not hold and holds later was acquired by t2 in between *)
Lemma acquired_between seg : forall h h' t2 l,
  lrun h seg = Some h' -> ~ In l (held_by h t2) -> In l (held_by h' t2) ->
  exists q, nth_error seg q = Some (t2, Acq l).
Proof.
  induction seg as [|[t a] seg IH]; intros h h' t2 l Hr Hn Hi.
  - simpl in Hr. inversion Hr; subst. contradiction.
  - cbn [lrun] in Hr. destruct (lstep h (t, a)) as [h1|] eqn:Hs; [|discriminate].
    assert (Hcase : (t, a) = (t2, Acq l) \/ ~ In l (held_by h1 t2)).
    { destruct a as [l0|l0|x|x]; cbn [lstep] in Hs.
      - destruct (owner_free h l0); [|discriminate]. inversion Hs; subst; clear Hs.
        destruct (N.eq_dec t2 t) as [->|Nt].
        + rewrite held_by_set_same. destruct (N.eq_dec l0 l) as [->|Nl]; [left; reflexivity|].
          right. intros [E|E]; [congruence | contradiction].
        + right. rewrite held_by_set_other by exact Nt. exact Hn.
      - destruct (memN l0 (held_by h t)); [|discriminate]. inversion Hs; subst; clear Hs. right.
        destruct (N.eq_dec t2 t) as [->|Nt].
        + rewrite held_by_set_same. intro E. apply In_delN in E. tauto.
        + rewrite held_by_set_other by exact Nt. exact Hn.
      - inversion Hs; subst. right; exact Hn.
      - inversion Hs; subst. right; exact Hn. }
    destruct Hcase as [E|Hn1].
    + exists 0. simpl. f_equal. exact E.
    + destruct (IH _ _ _ _ Hr Hn1 Hi) as (q & Hq). exists (S q). exact Hq.
Qed.

(* hand-off: if t1 holds l, and later a different thread t2 holds l, then in between t1 released
   l and after that t2 acquired it *)
Lemma handoff seg : forall h h' t1 t2 l,
  excl h -> lrun h seg = Some h' -> t1 <> t2 ->
  In l (held_by h t1) -> In l (held_by h' t2) ->
  exists p q, p < q /\ nth_error seg p = Some (t1, Rel l) /\ nth_error seg q = Some (t2, Acq l).
Proof.
  induction seg as [|[t a] seg IH]; intros h h' t1 t2 l Hx Hr Hne H1 H2.
  - simpl in Hr. inversion Hr; subst. exfalso. apply Hne. eapply Hx; eauto.
  - cbn [lrun] in Hr. destruct (lstep h (t, a)) as [h1|] eqn:Hs; [|discriminate].
    assert (Hx1 : excl h1) by (eapply lstep_excl; eauto).
    assert (Hcase : In l (held_by h1 t1) \/ ((t, a) = (t1, Rel l) /\ ~ In l (held_by h1 t2))).
    { assert (Hn2 : ~ In l (held_by h t2)) by (intro E; apply Hne; eapply Hx; eauto).
      destruct a as [l0|l0|x|x]; cbn [lstep] in Hs.
      - destruct (owner_free h l0); [|discriminate]. inversion Hs; subst; clear Hs. left.
        destruct (N.eq_dec t1 t) as [->|Nt].
        + rewrite held_by_set_same. right; exact H1.
        + rewrite held_by_set_other by exact Nt. exact H1.
      - destruct (memN l0 (held_by h t)); [|discriminate]. inversion Hs; subst; clear Hs.
        destruct (N.eq_dec t1 t) as [->|Nt].
        + destruct (N.eq_dec l0 l) as [->|Nl].
          * right. split; [reflexivity|]. rewrite held_by_set_other by congruence. exact Hn2.
          * left. rewrite held_by_set_same. apply In_delN. split; [exact H1 | congruence].
        + left. rewrite held_by_set_other by exact Nt. exact H1.
      - inversion Hs; subst. left; exact H1.
      - inversion Hs; subst. left; exact H1. }
    destruct Hcase as [H1'|[E Hn2]].
    + destruct (IH _ _ _ _ _ Hx1 Hr Hne H1' H2) as (p & q & Hpq & Hp & Hq).
      exists (S p), (S q). split; [lia|]. split; assumption.
    + destruct (acquired_between _ _ _ _ _ Hr Hn2 H2) as (q & Hq).
      exists 0, (S q). split; [lia|]. split; [simpl; f_equal; exact E | exact Hq].
Qed.

Lemma disciplined_nth guard ann k t a cur x :
  disciplined guard ann = true -> nth_error ann k = Some ((t, a), cur) -> is_access a x = true ->
  exists l, guard x = Some l /\ In l cur.
Proof.
  intros Hd Hk Ha. unfold disciplined in Hd. rewrite forallb_forall in Hd.
  specialize (Hd _ (nth_error_In _ _ Hk)). simpl in Hd.
  destruct a as [l|l|y|y]; simpl in Ha; try discriminate; apply N.eqb_eq in Ha; subst y;
    (destruct (guard x) as [l|]; [|discriminate]; exists l; split; [reflexivity | apply memN_In; exact Hd]).
Qed.

Lemma nth_error_firstn_some {A} (l : list A) : forall n p e,
  nth_error (firstn n l) p = Some e -> p < n /\ nth_error l p = Some e.
Proof.
  induction l as [|x l IH]; intros n p e H.
  - rewrite firstn_nil in H. destruct p; discriminate.
  - destruct n as [|n]; [destruct p; discriminate|]. destruct p as [|p]; simpl in *.
    + split; [lia | exact H].
    + destruct (IH _ _ _ H) as [H1 H2]. split; [lia | exact H2].
Qed.

Lemma nth_error_skipn {A} (l : list A) : forall n p, nth_error (skipn n l) p = nth_error l (n + p).
Proof.
  induction l as [|x l IH]; intros n p.
  - rewrite skipn_nil. destruct p, n; reflexivity.
  - destruct n as [|n]; [reflexivity|]. simpl. apply IH.
Qed.

Lemma firstn_split {A} (l : list A) : forall i j, i <= j -> firstn j l = firstn i l ++ firstn (j - i) (skipn i l).
Proof.
  induction l as [|x l IH]; intros i j Hij.
  - rewrite !firstn_nil, skipn_nil, firstn_nil. reflexivity.
  - destruct i as [|i]; [simpl; rewrite Nat.sub_0_r; reflexivity|].
    destruct j as [|j]; [lia|]. simpl. f_equal. apply IH. lia.
Qed.

Lemma firstn_S_nth {A} (l : list A) : forall i e, nth_error l i = Some e -> firstn (S i) l = firstn i l ++ [e].
Proof.
  induction l as [|x l IH]; intros i e H; [destruct i; discriminate|].
  destruct i as [|i]; simpl in *.
  - inversion H; reflexivity.
  - f_equal. apply IH. exact H.
Qed.

(* Soundness of the lockset discipline.  In a well-formed trace that follows the discipline, any
   two accesses to the same location x by different threads are ordered by a release/acquire
   pair on the lock that guards x: the earlier thread releases it after its access and the later
   thread acquires it after that and before its own access (happens-before through the mutex).
   The statement does not even need one of the accesses to be a write. *)
Theorem C16_lockset_sound guard tr ann i j t1 a1 t2 a2 x :
  run_locks [] tr = Some ann -> disciplined guard ann = true ->
  i < j -> nth_error tr i = Some (t1, a1) -> nth_error tr j = Some (t2, a2) -> t1 <> t2 ->
  is_access a1 x = true -> is_access a2 x = true ->
  exists l p q, guard x = Some l /\ i < p /\ p < q /\ q < j /\
                nth_error tr p = Some (t1, Rel l) /\ nth_error tr q = Some (t2, Acq l).
Proof.
  intros Hr Hd Hij Hi Hj Hne Ha1 Ha2.
  destruct (run_locks_nth _ _ _ _ _ _ Hr Hi) as (hi & Hhi & Hai).
  destruct (run_locks_nth _ _ _ _ _ _ Hr Hj) as (hj & Hhj & Haj).
  destruct (disciplined_nth _ _ _ _ _ _ _ Hd Hai Ha1) as (l & Hg & Hl1).
  destruct (disciplined_nth _ _ _ _ _ _ _ Hd Haj Ha2) as (l' & Hg' & Hl2).
  assert (l' = l) by congruence. subst l'.
  (* the state after the access at i is the state before it *)
  assert (Hsi : lrun [] (firstn (S i) tr) = Some hi).
  { rewrite (firstn_S_nth _ _ _ Hi). apply lrun_app. exists hi. split; [exact Hhi|].
    destruct a1; simpl in Ha1; try discriminate; reflexivity. }
  rewrite (firstn_split tr (S i) j) in Hhj by lia.
  apply lrun_app in Hhj as (h1 & Hh1 & Hseg). rewrite Hsi in Hh1. inversion Hh1; subst h1.
  destruct (handoff _ _ _ _ _ _ (lrun_excl _ _ _ excl_nil Hhi) Hseg Hne Hl1 Hl2) as (p & q & Hpq & Hp & Hq).
  apply nth_error_firstn_some in Hp as [Hp1 Hp2]. apply nth_error_firstn_some in Hq as [Hq1 Hq2].
  rewrite nth_error_skipn in Hp2, Hq2.
  exists l, (S i + p), (S i + q). split; [exact Hg|]. repeat split; try lia; assumption.
Qed.
Print Assumptions C16_lockset_sound.

(* a data race: two conflicting accesses (same location, different threads, at least one write)
   that are not ordered by a release/acquire pair of a common lock between them *)
Definition race (tr : list event) : Prop :=
  exists i j t1 a1 t2 a2 x,
    i < j /\ nth_error tr i = Some (t1, a1) /\ nth_error tr j = Some (t2, a2) /\ t1 <> t2 /\
    is_access a1 x = true /\ is_access a2 x = true /\ (is_write a1 || is_write a2 = true) /\
    ~ exists l p q, i < p /\ p < q /\ q < j /\
                    nth_error tr p = Some (t1, Rel l) /\ nth_error tr q = Some (t2, Acq l).

Theorem C16_no_race guard tr ann :
  run_locks [] tr = Some ann -> disciplined guard ann = true -> ~ race tr.
Proof.
  intros Hr Hd (i & j & t1 & a1 & t2 & a2 & x & Hij & Hi & Hj & Hne & H1 & H2 & _ & Hno).
  destruct (C16_lockset_sound _ _ _ _ _ _ _ _ _ _ Hr Hd Hij Hi Hj Hne H1 H2)
    as (l & p & q & _ & A & B & C & D & E).
  apply Hno. exists l, p, q. auto 6.
Qed.
Print Assumptions C16_no_race.

(* ---------- 3. examples ---------- *)
Local Open Scope N_scope.
Definition guard_ex (x : loc) : option lockid := if N.eqb x 10 then Some 1 else if N.eqb x 11 then Some 2 else None.

(* two goroutines incrementing location 10 under lock 1, one of them also reading 11 under lock 2 *)
Definition good_trace : list event :=
  [ (1, Acq 1); (1, Rd 10); (2, Acq 2); (1, Wr 10); (2, Rd 11); (1, Rel 1);
    (2, Acq 1); (2, Rd 10); (2, Wr 10); (2, Rel 1); (2, Rel 2) ].

Example C16_good :
  match run_locks [] good_trace with
  | Some ann => disciplined guard_ex ann = true /\
                nth_error ann 7%nat = Some ((2, Rd 10), [1; 2])
  | None => False
  end.
Proof. vm_compute. split; reflexivity. Qed.

(* the pair (write by 1 at position 3, read by 2 at position 7) is ordered by Rel at 5 / Acq at 6 *)
Example C16_good_ordered :
  nth_error good_trace 5%nat = Some (1, Rel 1) /\ nth_error good_trace 6%nat = Some (2, Acq 1).
Proof. split; reflexivity. Qed.

(* the same accesses with the second goroutine forgetting the lock: well-formed, not disciplined,
   and indeed racy *)
Definition racy_trace : list event :=
  [ (1, Acq 1); (1, Rd 10); (2, Rd 10); (1, Wr 10); (2, Wr 10); (1, Rel 1) ].

Example C16_racy :
  match run_locks [] racy_trace with
  | Some ann => disciplined guard_ex ann = false
  | None => False
  end.
Proof. vm_compute. reflexivity. Qed.

Example C16_racy_race : race racy_trace.
Proof.
  exists 1%nat, 4%nat, 1, (Rd 10), 2, (Wr 10), 10. repeat split; try reflexivity; try lia; try discriminate.
  intros (l & p & q & H1 & H2 & H3 & Hp & _).
  assert (p = 2%nat) by lia. subst p. simpl in Hp. discriminate.
Qed.

(* a trace violating mutual exclusion is not well-formed *)
Example C16_illformed : run_locks [] [ (1, Acq 1); (2, Acq 1) ] = None.
Proof. reflexivity. Qed.
