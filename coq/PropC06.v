(* PropC06.v — KEYSPACE DISCIPLINE for the whole data command table [data_cmd].

   Property C06: "A key holds exactly one type: a command applied to a key of another
   type fails with WRONGTYPE, and a command that fails for any reason (wrong type,
   syntax, range, overflow) leaves every key, value and expiry unchanged.  A list,
   hash or set never exists empty - however its last element is removed, the key is
   gone."

   Main theorems (table theorems are quantified over every entry of [Dispatch.data_cmd]):
     C06_failed_inert        an error reply leaves the db record literally unchanged
     C06_wf_preserved        no empty aggregate / duplicate key, field, member / bad or reused
                             version is ever created; C06_wf_empty, C06_wf_reachable,
                             C06_versions_distinct
     C06_no_empty_visible    a visible key never holds an empty aggregate
     C06_gone_pop, _pop_count, _lrem, _ltrim, _lmove, _rpoplpush, _lmpop, _lmpop_count,
     _hdel, _srem, _smove    removing the last element removes the key;
     C06_gone_observable     ... and then EXISTS/TYPE/KEYS/SCAN/DBSIZE do not see it
     C06_rename, C06_copy, C06_rename_copy
                             value and deadline travel unchanged, for every value type
     C06_wrongtype, C06_wrongtype_exact, C06_set_get_wrongtype
                             typed commands reply WRONGTYPE (or an argument error that does not
                             depend on the db) on a key of another type, and change nothing
     C06_wrongtype_multi, C06_wrongtype_multi_exact
                             the same for [accepts], which also classifies SORT (list or set)
   No command of the table had to be excluded from theorems 1 and 2 (LCS and SORT included).   *)
From RE Require Import Base Resp State Exec Exec2 Bits Lcs Sort Fnum Dispatch Lemmas.
From Coq Require Import String List ZArith NArith Lia Bool.
Import ListNotations.
Open Scope string_scope.
Open Scope list_scope.
Open Scope Z_scope.

Definition cmd := Z -> db -> list bytes -> res.

(* ------------------------------------------------------------------ *)
(* The command table as a list, and the type each command requires of  *)
(* the key given as its FIRST argument (None: no single-type first key *)
(* — see the comment at C06_wrongtype for the excluded commands).      *)
(* [expects] tests the names in the same order as [data_cmd].          *)
(* ------------------------------------------------------------------ *)
Definition expects (name : bytes) : option vtype :=
  let is s := bytes_eqb name (s2b s) in
  if is "set" then None else
  if is "setnx" then None else
  if is "setex" then None else
  if is "psetex" then None else
  if is "get" then Some TStr else
  if is "getset" then Some TStr else
  if is "getdel" then Some TStr else
  if is "getex" then Some TStr else
  if is "append" then Some TStr else
  if is "strlen" then Some TStr else
  if is "getrange" then Some TStr else
  if is "substr" then Some TStr else
  if is "setrange" then Some TStr else
  if is "incr" then Some TStr else
  if is "decr" then Some TStr else
  if is "incrby" then Some TStr else
  if is "decrby" then Some TStr else
  if is "mget" then None else
  if is "mset" then None else
  if is "msetnx" then None else
  if is "lpush" then Some TList else
  if is "rpush" then Some TList else
  if is "lpushx" then Some TList else
  if is "rpushx" then Some TList else
  if is "lpop" then Some TList else
  if is "rpop" then Some TList else
  if is "llen" then Some TList else
  if is "lindex" then Some TList else
  if is "lrange" then Some TList else
  if is "lset" then Some TList else
  if is "linsert" then Some TList else
  if is "lrem" then Some TList else
  if is "ltrim" then Some TList else
  if is "lpos" then Some TList else
  if is "lmove" then Some TList else
  if is "rpoplpush" then Some TList else
  if is "lmpop" then None else
  if is "hset" then Some THash else
  if is "hmset" then Some THash else
  if is "hsetnx" then Some THash else
  if is "hget" then Some THash else
  if is "hmget" then Some THash else
  if is "hgetall" then Some THash else
  if is "hkeys" then Some THash else
  if is "hvals" then Some THash else
  if is "hlen" then Some THash else
  if is "hexists" then Some THash else
  if is "hstrlen" then Some THash else
  if is "hdel" then Some THash else
  if is "hincrby" then Some THash else
  if is "hrandfield" then Some THash else
  if is "hscan" then Some THash else
  if is "sadd" then Some TSet else
  if is "srem" then Some TSet else
  if is "scard" then Some TSet else
  if is "sismember" then Some TSet else
  if is "smismember" then Some TSet else
  if is "smembers" then Some TSet else
  if is "smove" then Some TSet else
  if is "srandmember" then Some TSet else
  if is "sscan" then Some TSet else
  if is "sinter" then Some TSet else
  if is "sunion" then Some TSet else
  if is "sdiff" then Some TSet else
  if is "sinterstore" then None else
  if is "sunionstore" then None else
  if is "sdiffstore" then None else
  if is "sintercard" then None else
  if is "del" then None else
  if is "unlink" then None else
  if is "exists" then None else
  if is "touch" then None else
  if is "type" then None else
  if is "rename" then None else
  if is "renamenx" then None else
  if is "copy" then None else
  if is "keys" then None else
  if is "randomkey" then None else
  if is "dbsize" then None else
  if is "scan" then None else
  if is "expire" then None else
  if is "pexpire" then None else
  if is "expireat" then None else
  if is "pexpireat" then None else
  if is "ttl" then None else
  if is "pttl" then None else
  if is "expiretime" then None else
  if is "pexpiretime" then None else
  if is "persist" then None else
  if is "setbit" then Some TStr else
  if is "getbit" then Some TStr else
  if is "bitcount" then Some TStr else
  if is "bitpos" then Some TStr else
  if is "bitop" then None else
  if is "bitfield" then Some TStr else
  if is "bitfield_ro" then Some TStr else
  if is "lcs" then Some TStr else
  if is "sort" then None else
  if is "incrbyfloat" then Some TStr else
  if is "hincrbyfloat" then Some THash else
  None.

Definition table : list (cmd * option vtype) :=
  [ (cmd_set, None);
    (cmd_setnx, None);
    ((cmd_setex sec), None);
    ((cmd_setex msec), None);
    (cmd_get, Some TStr);
    (cmd_getset, Some TStr);
    (cmd_getdel, Some TStr);
    (cmd_getex, Some TStr);
    (cmd_append, Some TStr);
    (cmd_strlen, Some TStr);
    (cmd_getrange, Some TStr);
    (cmd_getrange, Some TStr);
    (cmd_setrange, Some TStr);
    ((cmd_incr 1), Some TStr);
    ((cmd_incr (-1)), Some TStr);
    ((cmd_incrby 1), Some TStr);
    ((cmd_incrby (-1)), Some TStr);
    (cmd_mget, None);
    (cmd_mset, None);
    (cmd_msetnx, None);
    ((cmd_push true false), Some TList);
    ((cmd_push false false), Some TList);
    ((cmd_push true true), Some TList);
    ((cmd_push false true), Some TList);
    ((cmd_pop true), Some TList);
    ((cmd_pop false), Some TList);
    (cmd_llen, Some TList);
    (cmd_lindex, Some TList);
    (cmd_lrange, Some TList);
    (cmd_lset, Some TList);
    (cmd_linsert, Some TList);
    (cmd_lrem, Some TList);
    (cmd_ltrim, Some TList);
    (cmd_lpos, Some TList);
    (cmd_lmove, Some TList);
    (cmd_rpoplpush, Some TList);
    (cmd_lmpop, None);
    ((cmd_hset 0), Some THash);
    ((cmd_hset 1), Some THash);
    ((cmd_hset 2), Some THash);
    (cmd_hget, Some THash);
    (cmd_hmget, Some THash);
    (cmd_hgetall, Some THash);
    ((cmd_hkeys false), Some THash);
    ((cmd_hkeys true), Some THash);
    (cmd_hlen, Some THash);
    ((cmd_hexists false), Some THash);
    ((cmd_hexists true), Some THash);
    (cmd_hdel, Some THash);
    (cmd_hincrby, Some THash);
    (cmd_hrandfield, Some THash);
    (cmd_hscan, Some THash);
    (cmd_sadd, Some TSet);
    (cmd_srem, Some TSet);
    (cmd_scard, Some TSet);
    (cmd_sismember, Some TSet);
    (cmd_smismember, Some TSet);
    (cmd_smembers, Some TSet);
    (cmd_smove, Some TSet);
    (cmd_srandmember, Some TSet);
    (cmd_sscan, Some TSet);
    ((cmd_setop OpInter), Some TSet);
    ((cmd_setop OpUnion), Some TSet);
    ((cmd_setop OpDiff), Some TSet);
    ((cmd_setop_store OpInter), None);
    ((cmd_setop_store OpUnion), None);
    ((cmd_setop_store OpDiff), None);
    (cmd_sintercard, None);
    (cmd_del, None);
    (cmd_del, None);
    (cmd_exists, None);
    (cmd_touch, None);
    (cmd_type, None);
    ((cmd_rename false), None);
    ((cmd_rename true), None);
    (cmd_copy, None);
    (cmd_keys, None);
    (cmd_randomkey, None);
    (cmd_dbsize, None);
    (cmd_scan, None);
    ((cmd_expire sec true), None);
    ((cmd_expire msec true), None);
    ((cmd_expire sec false), None);
    ((cmd_expire msec false), None);
    ((cmd_ttl sec true), None);
    ((cmd_ttl msec true), None);
    ((cmd_ttl sec false), None);
    ((cmd_ttl msec false), None);
    (cmd_persist, None);
    (cmd_setbit, Some TStr);
    (cmd_getbit, Some TStr);
    (cmd_bitcount, Some TStr);
    (cmd_bitpos, Some TStr);
    (cmd_bitop, None);
    ((cmd_bitfield false), Some TStr);
    ((cmd_bitfield true), Some TStr);
    (cmd_lcs, Some TStr);
    (cmd_sort, None);
    (cmd_incrbyfloat, Some TStr);
    (cmd_hincrbyfloat, Some THash) ].

(* One traversal of the [if]-chain of [data_cmd], reused by every table theorem. *)
Lemma table_sound (P : cmd -> option vtype -> Prop) :
  Forall (fun x => P (fst x) (snd x)) table ->
  forall name f, data_cmd name = Some f -> P f (expects name).
Proof.
  intros HF name f. unfold data_cmd, expects. cbv beta zeta. unfold table in HF.
  repeat (lazymatch goal with
          | |- (if ?b then _ else _) = _ -> _ =>
            let Hhd := fresh "Hhd" in
            pose proof (Forall_inv HF) as Hhd; apply Forall_inv_tail in HF;
            cbn [fst snd] in Hhd;
            destruct b; [ intro H; injection H as <-; exact Hhd | clear Hhd ]
          end).
  discriminate.
Qed.

(* ================================================================== *)
(* 1. A command that replies an error changes nothing                  *)
(* ================================================================== *)
Definition inert_res (d : db) (r : res) : Prop := forall s, snd r = RErr s -> fst r = d.
Definition inert (f : cmd) : Prop :=
  forall now d args s, snd (f now d args) = RErr s -> fst (f now d args) = d.

(* innermost scrutinee of the head match of a term *)
Ltac hs t :=
  lazymatch t with
  | fst ?x => hs x
  | snd ?x => hs x
  | match ?x with _ => _ end => hs x
  | _ => t
  end.

Ltac inert_leaf :=
  let s := fresh "s" in let H := fresh "H" in
  intros s H; cbn [fst snd] in *;
  first [ reflexivity
        | exfalso; unfold ok in H;
          repeat (lazymatch type of H with
                  | match _ with _ => _ end = _ =>
                    match type of H with ?T = _ => let x := hs T in destruct x end
                  end);
          discriminate H ].

Ltac inert_step :=
  lazymatch goal with
  | |- inert_res _ (match _ with _ => _ end) =>
    match goal with |- inert_res _ ?T => let x := hs T in destruct x end
  | |- inert_res _ (_, _) => inert_leaf
  | |- _ => solve [auto with c06]
  end.

Ltac inert_cmd := intros; cbv beta zeta; repeat inert_step.

Lemma inert_of_res (f : cmd) : (forall now d args, inert_res d (f now d args)) -> inert f.
Proof. intros H now d args s. apply H. Qed.

Lemma set_core_inert now d k v o : inert_res d (set_core now d k v o).
Proof. unfold set_core. inert_cmd. Qed.
Lemma incr_core_inert now d k dl : inert_res d (incr_core now d k dl).
Proof. unfold incr_core. inert_cmd. Qed.
Lemma lmove_core_inert now d s t a b : inert_res d (lmove_core now d s t a b).
Proof. unfold lmove_core. inert_cmd. Qed.
Lemma expire_core_inert now d k t c : inert_res d (expire_core now d k t c).
Proof. unfold expire_core. inert_cmd. Qed.
Lemma lmpop_keys_inert now d keys lft c : inert_res d (lmpop_keys now d keys lft c).
Proof.
  induction keys as [|k r IH]; cbn [lmpop_keys]; [inert_cmd | ].
  destruct (get_list now d k) as [[[l exp]|]|]; [ | exact IH | inert_cmd ].
  inert_cmd.
Qed.
#[export] Hint Resolve set_core_inert incr_core_inert lmove_core_inert expire_core_inert
  lmpop_keys_inert : c06.

Lemma del_fold_int now args : forall d n, exists d' m,
  fold_left (fun (acc : db * resp) k => let '(d, r) := acc in
               match r with
               | RInt n => match lookup now d k with
                           | Some _ => (del d k, RInt (n + 1))
                           | None => (d, RInt n)
                           end
               | _ => acc
               end) args (d, RInt n) = (d', RInt m).
Proof.
  induction args as [|k r IH]; intros d n; cbn [fold_left].
  - eauto.
  - destruct (lookup now d k); apply IH.
Qed.

Lemma cmd_set_inert : inert cmd_set.
Proof. apply inert_of_res. unfold cmd_set. inert_cmd. Qed.
Lemma cmd_setnx_inert : inert cmd_setnx.
Proof. apply inert_of_res. unfold cmd_setnx. inert_cmd. Qed.
Lemma cmd_setex_inert u : inert (cmd_setex u).
Proof. apply inert_of_res. unfold cmd_setex. inert_cmd. Qed.
Lemma cmd_get_inert : inert cmd_get.
Proof. apply inert_of_res. unfold cmd_get. inert_cmd. Qed.
Lemma cmd_getset_inert : inert cmd_getset.
Proof. apply inert_of_res. unfold cmd_getset. inert_cmd. Qed.
Lemma cmd_getdel_inert : inert cmd_getdel.
Proof. apply inert_of_res. unfold cmd_getdel. inert_cmd. Qed.
Lemma cmd_getex_inert : inert cmd_getex.
Proof. apply inert_of_res. unfold cmd_getex. inert_cmd. Qed.
Lemma cmd_append_inert : inert cmd_append.
Proof. apply inert_of_res. unfold cmd_append. inert_cmd. Qed.
Lemma cmd_strlen_inert : inert cmd_strlen.
Proof. apply inert_of_res. unfold cmd_strlen. inert_cmd. Qed.
Lemma cmd_getrange_inert : inert cmd_getrange.
Proof. apply inert_of_res. unfold cmd_getrange. inert_cmd. Qed.
Lemma cmd_setrange_inert : inert cmd_setrange.
Proof. apply inert_of_res. unfold cmd_setrange. inert_cmd. Qed.
Lemma cmd_incr_inert dl : inert (cmd_incr dl).
Proof. apply inert_of_res. unfold cmd_incr. inert_cmd. Qed.
Lemma cmd_incrby_inert sg : inert (cmd_incrby sg).
Proof. apply inert_of_res. unfold cmd_incrby. inert_cmd. Qed.
Lemma cmd_mget_inert : inert cmd_mget.
Proof. apply inert_of_res. unfold cmd_mget. inert_cmd. Qed.
Lemma cmd_mset_inert : inert cmd_mset.
Proof. apply inert_of_res. unfold cmd_mset. inert_cmd. Qed.
Lemma cmd_msetnx_inert : inert cmd_msetnx.
Proof. apply inert_of_res. unfold cmd_msetnx. inert_cmd. Qed.
Lemma cmd_push_inert a b : inert (cmd_push a b).
Proof. apply inert_of_res. unfold cmd_push. inert_cmd. Qed.
Lemma cmd_pop_inert a : inert (cmd_pop a).
Proof. apply inert_of_res. unfold cmd_pop. inert_cmd. Qed.
Lemma cmd_llen_inert : inert cmd_llen.
Proof. apply inert_of_res. unfold cmd_llen. inert_cmd. Qed.
Lemma cmd_lindex_inert : inert cmd_lindex.
Proof. apply inert_of_res. unfold cmd_lindex. inert_cmd. Qed.
Lemma cmd_lrange_inert : inert cmd_lrange.
Proof. apply inert_of_res. unfold cmd_lrange. inert_cmd. Qed.
Lemma cmd_lset_inert : inert cmd_lset.
Proof. apply inert_of_res. unfold cmd_lset. inert_cmd. Qed.
Lemma cmd_linsert_inert : inert cmd_linsert.
Proof. apply inert_of_res. unfold cmd_linsert. inert_cmd. Qed.
Lemma cmd_lrem_inert : inert cmd_lrem.
Proof. apply inert_of_res. unfold cmd_lrem. inert_cmd. Qed.
Lemma cmd_ltrim_inert : inert cmd_ltrim.
Proof. apply inert_of_res. unfold cmd_ltrim. inert_cmd. Qed.
Lemma cmd_lpos_inert : inert cmd_lpos.
Proof. apply inert_of_res. unfold cmd_lpos. inert_cmd. Qed.
Lemma cmd_lmove_inert : inert cmd_lmove.
Proof. apply inert_of_res. unfold cmd_lmove. inert_cmd. Qed.
Lemma cmd_rpoplpush_inert : inert cmd_rpoplpush.
Proof. apply inert_of_res. unfold cmd_rpoplpush. inert_cmd. Qed.
Lemma cmd_lmpop_inert : inert cmd_lmpop.
Proof. apply inert_of_res. unfold cmd_lmpop. inert_cmd. Qed.
Lemma cmd_hset_inert m : inert (cmd_hset m).
Proof. apply inert_of_res. unfold cmd_hset. inert_cmd. Qed.
Lemma cmd_hget_inert : inert cmd_hget.
Proof. apply inert_of_res. unfold cmd_hget. inert_cmd. Qed.
Lemma cmd_hmget_inert : inert cmd_hmget.
Proof. apply inert_of_res. unfold cmd_hmget. inert_cmd. Qed.
Lemma cmd_hgetall_inert : inert cmd_hgetall.
Proof. apply inert_of_res. unfold cmd_hgetall. inert_cmd. Qed.
Lemma cmd_hkeys_inert b : inert (cmd_hkeys b).
Proof. apply inert_of_res. unfold cmd_hkeys. inert_cmd. Qed.
Lemma cmd_hlen_inert : inert cmd_hlen.
Proof. apply inert_of_res. unfold cmd_hlen. inert_cmd. Qed.
Lemma cmd_hexists_inert b : inert (cmd_hexists b).
Proof. apply inert_of_res. unfold cmd_hexists. inert_cmd. Qed.
Lemma cmd_hdel_inert : inert cmd_hdel.
Proof. apply inert_of_res. unfold cmd_hdel. inert_cmd. Qed.
Lemma cmd_hincrby_inert : inert cmd_hincrby.
Proof. apply inert_of_res. unfold cmd_hincrby. inert_cmd. Qed.
Lemma cmd_hrandfield_inert : inert cmd_hrandfield.
Proof. apply inert_of_res. unfold cmd_hrandfield. inert_cmd. Qed.
Lemma cmd_hscan_inert : inert cmd_hscan.
Proof. apply inert_of_res. unfold cmd_hscan. inert_cmd. Qed.
Lemma cmd_sadd_inert : inert cmd_sadd.
Proof. apply inert_of_res. unfold cmd_sadd. inert_cmd. Qed.
Lemma cmd_srem_inert : inert cmd_srem.
Proof. apply inert_of_res. unfold cmd_srem. inert_cmd. Qed.
Lemma cmd_scard_inert : inert cmd_scard.
Proof. apply inert_of_res. unfold cmd_scard. inert_cmd. Qed.
Lemma cmd_sismember_inert : inert cmd_sismember.
Proof. apply inert_of_res. unfold cmd_sismember. inert_cmd. Qed.
Lemma cmd_smismember_inert : inert cmd_smismember.
Proof. apply inert_of_res. unfold cmd_smismember. inert_cmd. Qed.
Lemma cmd_smembers_inert : inert cmd_smembers.
Proof. apply inert_of_res. unfold cmd_smembers. inert_cmd. Qed.
Lemma cmd_smove_inert : inert cmd_smove.
Proof. apply inert_of_res. unfold cmd_smove. inert_cmd. Qed.
Lemma cmd_srandmember_inert : inert cmd_srandmember.
Proof. apply inert_of_res. unfold cmd_srandmember. inert_cmd. Qed.
Lemma cmd_sscan_inert : inert cmd_sscan.
Proof. apply inert_of_res. unfold cmd_sscan. inert_cmd. Qed.
Lemma cmd_setop_inert o : inert (cmd_setop o).
Proof. apply inert_of_res. unfold cmd_setop. inert_cmd. Qed.
Lemma cmd_setop_store_inert o : inert (cmd_setop_store o).
Proof. apply inert_of_res. unfold cmd_setop_store. inert_cmd. Qed.
Lemma cmd_sintercard_inert : inert cmd_sintercard.
Proof. apply inert_of_res. unfold cmd_sintercard. inert_cmd. Qed.
Lemma cmd_del_inert : inert cmd_del.
Proof.
  intros now d args s. unfold cmd_del. destruct args as [|a r]; [reflexivity | ].
  destruct (del_fold_int now (a :: r) d 0) as [d' [m E]]. rewrite E. discriminate.
Qed.
Lemma cmd_exists_inert : inert cmd_exists.
Proof. apply inert_of_res. unfold cmd_exists. inert_cmd. Qed.
Lemma cmd_touch_inert : inert cmd_touch.
Proof. exact cmd_exists_inert. Qed.
Lemma cmd_type_inert : inert cmd_type.
Proof. apply inert_of_res. unfold cmd_type. inert_cmd. Qed.
Lemma cmd_rename_inert nx : inert (cmd_rename nx).
Proof. apply inert_of_res. unfold cmd_rename. inert_cmd. Qed.
Lemma cmd_copy_inert : inert cmd_copy.
Proof. apply inert_of_res. unfold cmd_copy. inert_cmd. Qed.
Lemma cmd_keys_inert : inert cmd_keys.
Proof. apply inert_of_res. unfold cmd_keys. inert_cmd. Qed.
Lemma cmd_randomkey_inert : inert cmd_randomkey.
Proof. apply inert_of_res. unfold cmd_randomkey. inert_cmd. Qed.
Lemma cmd_dbsize_inert : inert cmd_dbsize.
Proof. apply inert_of_res. unfold cmd_dbsize. inert_cmd. Qed.
Lemma cmd_scan_inert : inert cmd_scan.
Proof. apply inert_of_res. unfold cmd_scan. inert_cmd. Qed.
Lemma cmd_expire_inert u r : inert (cmd_expire u r).
Proof. apply inert_of_res. unfold cmd_expire. inert_cmd. Qed.
Lemma cmd_ttl_inert u r : inert (cmd_ttl u r).
Proof. apply inert_of_res. unfold cmd_ttl. inert_cmd. Qed.
Lemma cmd_persist_inert : inert cmd_persist.
Proof. apply inert_of_res. unfold cmd_persist. inert_cmd. Qed.
Lemma cmd_setbit_inert : inert cmd_setbit.
Proof. apply inert_of_res. unfold cmd_setbit. inert_cmd. Qed.
Lemma cmd_getbit_inert : inert cmd_getbit.
Proof. apply inert_of_res. unfold cmd_getbit. inert_cmd. Qed.
Lemma cmd_bitcount_inert : inert cmd_bitcount.
Proof. apply inert_of_res. unfold cmd_bitcount. inert_cmd. Qed.
Lemma cmd_bitpos_inert : inert cmd_bitpos.
Proof. apply inert_of_res. unfold cmd_bitpos. inert_cmd. Qed.
Lemma cmd_bitop_inert : inert cmd_bitop.
Proof. apply inert_of_res. unfold cmd_bitop. inert_cmd. Qed.
Lemma cmd_bitfield_inert ro : inert (cmd_bitfield ro).
Proof. apply inert_of_res. unfold cmd_bitfield. inert_cmd. Qed.
Lemma cmd_lcs_inert : inert cmd_lcs.
Proof. apply inert_of_res. unfold cmd_lcs. inert_cmd. Qed.
Lemma cmd_sort_inert : inert cmd_sort.
Proof. apply inert_of_res. unfold cmd_sort. inert_cmd. Qed.
Lemma cmd_incrbyfloat_inert : inert cmd_incrbyfloat.
Proof. apply inert_of_res. unfold cmd_incrbyfloat. inert_cmd. Qed.
Lemma cmd_hincrbyfloat_inert : inert cmd_hincrbyfloat.
Proof. apply inert_of_res. unfold cmd_hincrbyfloat. inert_cmd. Qed.


Lemma table_inert : Forall (fun x : cmd * option vtype => inert (fst x)) table.
Proof.
  unfold table.
  apply Forall_cons. exact (cmd_set_inert).
  apply Forall_cons. exact (cmd_setnx_inert).
  apply Forall_cons. exact (cmd_setex_inert sec).
  apply Forall_cons. exact (cmd_setex_inert msec).
  apply Forall_cons. exact (cmd_get_inert).
  apply Forall_cons. exact (cmd_getset_inert).
  apply Forall_cons. exact (cmd_getdel_inert).
  apply Forall_cons. exact (cmd_getex_inert).
  apply Forall_cons. exact (cmd_append_inert).
  apply Forall_cons. exact (cmd_strlen_inert).
  apply Forall_cons. exact (cmd_getrange_inert).
  apply Forall_cons. exact (cmd_getrange_inert).
  apply Forall_cons. exact (cmd_setrange_inert).
  apply Forall_cons. exact (cmd_incr_inert 1).
  apply Forall_cons. exact (cmd_incr_inert (-1)).
  apply Forall_cons. exact (cmd_incrby_inert 1).
  apply Forall_cons. exact (cmd_incrby_inert (-1)).
  apply Forall_cons. exact (cmd_mget_inert).
  apply Forall_cons. exact (cmd_mset_inert).
  apply Forall_cons. exact (cmd_msetnx_inert).
  apply Forall_cons. exact (cmd_push_inert true false).
  apply Forall_cons. exact (cmd_push_inert false false).
  apply Forall_cons. exact (cmd_push_inert true true).
  apply Forall_cons. exact (cmd_push_inert false true).
  apply Forall_cons. exact (cmd_pop_inert true).
  apply Forall_cons. exact (cmd_pop_inert false).
  apply Forall_cons. exact (cmd_llen_inert).
  apply Forall_cons. exact (cmd_lindex_inert).
  apply Forall_cons. exact (cmd_lrange_inert).
  apply Forall_cons. exact (cmd_lset_inert).
  apply Forall_cons. exact (cmd_linsert_inert).
  apply Forall_cons. exact (cmd_lrem_inert).
  apply Forall_cons. exact (cmd_ltrim_inert).
  apply Forall_cons. exact (cmd_lpos_inert).
  apply Forall_cons. exact (cmd_lmove_inert).
  apply Forall_cons. exact (cmd_rpoplpush_inert).
  apply Forall_cons. exact (cmd_lmpop_inert).
  apply Forall_cons. exact (cmd_hset_inert 0).
  apply Forall_cons. exact (cmd_hset_inert 1).
  apply Forall_cons. exact (cmd_hset_inert 2).
  apply Forall_cons. exact (cmd_hget_inert).
  apply Forall_cons. exact (cmd_hmget_inert).
  apply Forall_cons. exact (cmd_hgetall_inert).
  apply Forall_cons. exact (cmd_hkeys_inert false).
  apply Forall_cons. exact (cmd_hkeys_inert true).
  apply Forall_cons. exact (cmd_hlen_inert).
  apply Forall_cons. exact (cmd_hexists_inert false).
  apply Forall_cons. exact (cmd_hexists_inert true).
  apply Forall_cons. exact (cmd_hdel_inert).
  apply Forall_cons. exact (cmd_hincrby_inert).
  apply Forall_cons. exact (cmd_hrandfield_inert).
  apply Forall_cons. exact (cmd_hscan_inert).
  apply Forall_cons. exact (cmd_sadd_inert).
  apply Forall_cons. exact (cmd_srem_inert).
  apply Forall_cons. exact (cmd_scard_inert).
  apply Forall_cons. exact (cmd_sismember_inert).
  apply Forall_cons. exact (cmd_smismember_inert).
  apply Forall_cons. exact (cmd_smembers_inert).
  apply Forall_cons. exact (cmd_smove_inert).
  apply Forall_cons. exact (cmd_srandmember_inert).
  apply Forall_cons. exact (cmd_sscan_inert).
  apply Forall_cons. exact (cmd_setop_inert OpInter).
  apply Forall_cons. exact (cmd_setop_inert OpUnion).
  apply Forall_cons. exact (cmd_setop_inert OpDiff).
  apply Forall_cons. exact (cmd_setop_store_inert OpInter).
  apply Forall_cons. exact (cmd_setop_store_inert OpUnion).
  apply Forall_cons. exact (cmd_setop_store_inert OpDiff).
  apply Forall_cons. exact (cmd_sintercard_inert).
  apply Forall_cons. exact (cmd_del_inert).
  apply Forall_cons. exact (cmd_del_inert).
  apply Forall_cons. exact (cmd_exists_inert).
  apply Forall_cons. exact (cmd_touch_inert).
  apply Forall_cons. exact (cmd_type_inert).
  apply Forall_cons. exact (cmd_rename_inert false).
  apply Forall_cons. exact (cmd_rename_inert true).
  apply Forall_cons. exact (cmd_copy_inert).
  apply Forall_cons. exact (cmd_keys_inert).
  apply Forall_cons. exact (cmd_randomkey_inert).
  apply Forall_cons. exact (cmd_dbsize_inert).
  apply Forall_cons. exact (cmd_scan_inert).
  apply Forall_cons. exact (cmd_expire_inert sec true).
  apply Forall_cons. exact (cmd_expire_inert msec true).
  apply Forall_cons. exact (cmd_expire_inert sec false).
  apply Forall_cons. exact (cmd_expire_inert msec false).
  apply Forall_cons. exact (cmd_ttl_inert sec true).
  apply Forall_cons. exact (cmd_ttl_inert msec true).
  apply Forall_cons. exact (cmd_ttl_inert sec false).
  apply Forall_cons. exact (cmd_ttl_inert msec false).
  apply Forall_cons. exact (cmd_persist_inert).
  apply Forall_cons. exact (cmd_setbit_inert).
  apply Forall_cons. exact (cmd_getbit_inert).
  apply Forall_cons. exact (cmd_bitcount_inert).
  apply Forall_cons. exact (cmd_bitpos_inert).
  apply Forall_cons. exact (cmd_bitop_inert).
  apply Forall_cons. exact (cmd_bitfield_inert false).
  apply Forall_cons. exact (cmd_bitfield_inert true).
  apply Forall_cons. exact (cmd_lcs_inert).
  apply Forall_cons. exact (cmd_sort_inert).
  apply Forall_cons. exact (cmd_incrbyfloat_inert).
  apply Forall_cons. exact (cmd_hincrbyfloat_inert).
  apply Forall_nil.
Qed.

(* THEOREM 1.  Whatever the command, whatever the reason of the failure: if the reply is an
   error then the database is literally the same record — keys, values, deadlines, versions,
   version counter and dirty flag. *)
Theorem C06_failed_inert : forall name f now d args s,
  data_cmd name = Some f -> snd (f now d args) = RErr s -> fst (f now d args) = d.
Proof.
  intros name f now d args s Hf.
  exact (table_sound (fun f _ => inert f) table_inert name f Hf now d args s).
Qed.
Print Assumptions C06_failed_inert.

(* INCR on a non-numeric string, LSET out of range, SADD on a string: error and same db *)
Example C06_failed_inert_ex :
  let d := fst (cmd_push false false 0 (fst (cmd_set 0 empty_db [s2b "k"; s2b "abc"])) [s2b "l"; s2b "x"]) in
  match data_cmd (s2b "incr"), data_cmd (s2b "lset"), data_cmd (s2b "sadd") with
  | Some f, Some g, Some h =>
    snd (f 5 d [s2b "k"]) = notint /\ fst (f 5 d [s2b "k"]) = d /\
    snd (g 5 d [s2b "l"; s2b "7"; s2b "y"]) = err "ERR index out of range" /\
    fst (g 5 d [s2b "l"; s2b "7"; s2b "y"]) = d /\
    snd (h 5 d [s2b "k"; s2b "m"]) = wrongtype /\ fst (h 5 d [s2b "k"; s2b "m"]) = d
  | _, _, _ => False
  end.
Proof. vm_compute. repeat split; reflexivity. Qed.

(* ================================================================== *)
(* 2. Well-formed keyspaces are preserved by every command             *)
(* ================================================================== *)
Definition wf_value (v : value) : Prop :=
  match v with
  | VStr _ => True
  | VList l => l <> []
  | VHash h => h <> [] /\ NoDup (map fst h)
  | VSet s => s <> [] /\ NoDup s
  end.

(* the two requested clauses, plus: no two stored entries carry the same version *)
Definition vers (m : list (bytes * entry)) : list N := map (fun ke => e_ver (snd ke)) m.
Definition wf_db (d : db) : Prop :=
  NoDup (map fst (d_map d)) /\
  (forall k e, In (k, e) (d_map d) ->
    wf_value (e_val e) /\ (1 <= e_ver e)%N /\ (e_ver e <= d_next d)%N) /\
  NoDup (vers (d_map d)).

(* well-formed up to emptiness: what [put_or_del] needs *)
Definition nodup_value (v : value) : Prop :=
  match v with
  | VStr _ => True
  | VList _ => True
  | VHash h => NoDup (map fst h)
  | VSet s => NoDup s
  end.

Lemma wf_value_nodup v : wf_value v -> nodup_value v.
Proof. destruct v; cbn; tauto. Qed.

Lemma wf_of_nodup v : nodup_value v -> is_empty_agg v = false -> wf_value v.
Proof.
  destruct v as [b|l|h|s]; cbn; intros Hn He; auto.
  - destruct l; [discriminate|discriminate].
  - destruct h; [discriminate|]. split; [discriminate|assumption].
  - destruct s; [discriminate|]. split; [discriminate|assumption].
Qed.

Section AssocIn.
  Context {V : Type}.
  Implicit Types (m : list (bytes * V)).
  Lemma in_aset m k v k' v' : In (k', v') (aset m k v) -> (k', v') = (k, v) \/ In (k', v') m.
  Proof.
    induction m as [|[k0 v0] m IH]; cbn [aset].
    - intros [H|[]]. left. symmetry. exact H.
    - destruct (bytes_eqb k k0).
      + intros [H|H]; [left; symmetry; exact H | right; right; exact H].
      + intros [H|H]; [right; left; exact H|].
        destruct (IH H) as [H1|H1]; [left; exact H1 | right; right; exact H1].
  Qed.
  Lemma in_adel m k k' v' : In (k', v') (adel m k) -> In (k', v') m.
  Proof.
    induction m as [|[k0 v0] m IH]; cbn [adel]; [tauto|].
    destruct (bytes_eqb k k0).
    - intro H. right. apply IH. exact H.
    - intros [H|H]; [left; exact H | right; apply IH; exact H].
  Qed.
  Lemma aget_in m k v : aget m k = Some v -> In (k, v) m.
  Proof.
    induction m as [|[k0 v0] m IH]; cbn [aget]; [discriminate|].
    destruct (bytes_eqb k k0) eqn:E.
    - apply bytes_eqb_eq in E. subst k0. intro H. injection H as ->. left. reflexivity.
    - intro H. right. apply IH. exact H.
  Qed.
End AssocIn.

Lemma wf_empty : wf_db empty_db.
Proof. split; [|split]; cbn; [constructor | intros k e [] | constructor]. Qed.

Lemma in_vers x m : In x (vers m) <-> exists k e, In (k, e) m /\ e_ver e = x.
Proof.
  unfold vers. rewrite in_map_iff. split.
  - intros [[k e] [H1 H2]]. exists k, e. split; [exact H2 | exact H1].
  - intros [k [e [H1 H2]]]. exists (k, e). split; [exact H2 | exact H1].
Qed.
Lemma NoDup_vers_aset m k e :
  NoDup (vers m) -> ~ In (e_ver e) (vers m) -> NoDup (vers (aset m k e)).
Proof.
  induction m as [|[k0 e0] m IH]; cbn [aset]; intros Hn Hnot.
  - cbn. constructor; [intros []|constructor].
  - cbn [vers map snd] in Hn, Hnot. inversion Hn as [|? ? Hh Ht]; subst.
    destruct (bytes_eqb k k0); cbn [vers map snd]; fold (vers m) in *.
    + constructor; [|exact Ht]. intro Hin. apply Hnot. right. exact Hin.
    + fold (vers (aset m k e)). constructor.
      * intro Hin. apply in_vers in Hin. destruct Hin as [k1 [e1 [Hin He]]].
        apply in_aset in Hin. destruct Hin as [Heq|Hin].
        -- injection Heq as -> ->. apply Hnot. left. symmetry. exact He.
        -- apply Hh. apply in_vers. exists k1, e1. split; [exact Hin | exact He].
      * apply IH; [exact Ht|]. intro Hin. apply Hnot. right. exact Hin.
Qed.
Lemma NoDup_vers_adel m k : NoDup (vers m) -> NoDup (vers (adel m k)).
Proof.
  induction m as [|[k0 e0] m IH]; cbn [adel]; intro Hn; [constructor|].
  cbn [vers map snd] in Hn. fold (vers m) in Hn. inversion Hn as [|? ? Hh Ht]; subst.
  destruct (bytes_eqb k k0); [apply IH; exact Ht|].
  cbn [vers map snd]. fold (vers (adel m k)). constructor; [|apply IH; exact Ht].
  intro Hin. apply in_vers in Hin. destruct Hin as [k1 [e1 [Hin He]]]. apply in_adel in Hin.
  apply Hh. apply in_vers. exists k1, e1. split; [exact Hin | exact He].
Qed.

Lemma wf_put d k v exp : wf_db d -> wf_value v -> wf_db (put d k v exp).
Proof.
  intros [Hnd [Hall Hv']] Hv. split; [|split]; cbn [put d_map d_next].
  - apply (NoDup_akeys_aset (d_map d)). exact Hnd.
  - intros k' e' Hin. apply in_aset in Hin. destruct Hin as [Heq|Hin].
    + injection Heq as -> ->. cbn [e_val e_ver]. split; [exact Hv|]. lia.
    + destruct (Hall k' e' Hin) as [H1 [H2 H3]]. split; [exact H1|]. lia.
  - apply NoDup_vers_aset; [exact Hv'|]. cbn [e_ver]. intro Hin.
    apply in_vers in Hin. destruct Hin as [k1 [e1 [Hin He]]].
    destruct (Hall k1 e1 Hin) as [_ [_ H3]]. lia.
Qed.

Lemma wf_del d k : wf_db d -> wf_db (del d k).
Proof.
  intros [Hnd [Hall Hv']]. split; [|split]; cbn [del d_map d_next].
  - apply (NoDup_akeys_adel (d_map d)). exact Hnd.
  - intros k' e' Hin. apply in_adel in Hin.
    destruct (Hall k' e' Hin) as [H1 [H2 H3]]. split; [exact H1|]. lia.
  - apply NoDup_vers_adel. exact Hv'.
Qed.

Lemma wf_put_or_del d k v exp : wf_db d -> nodup_value v -> wf_db (put_or_del d k v exp).
Proof.
  intros Hd Hv. unfold put_or_del. destruct (is_empty_agg v) eqn:E.
  - apply wf_del. exact Hd.
  - apply wf_put; [exact Hd | apply wf_of_nodup; assumption].
Qed.

Lemma lookup_in now d k e : lookup now d k = Some e -> In (k, e) (d_map d) /\ expired now e = false.
Proof.
  unfold lookup. destruct (aget (d_map d) k) as [e0|] eqn:E; [|discriminate].
  destruct (expired now e0) eqn:X; [discriminate|]. intro H. injection H as <-.
  split; [apply aget_in; exact E | exact X].
Qed.

Lemma wf_lookup now d k e : wf_db d -> lookup now d k = Some e -> wf_value (e_val e).
Proof. intros [_ [Hall _]] H. apply lookup_in in H. destruct H as [H _]. apply (Hall k e H). Qed.

(* THEOREM 3 (first half).  A visible key never holds an empty list, hash or set. *)
Theorem C06_no_empty_visible : forall now d k e,
  wf_db d -> lookup now d k = Some e -> wf_value (e_val e).
Proof. exact wf_lookup. Qed.
Print Assumptions C06_no_empty_visible.

Lemma wf_update now d k v : wf_db d -> nodup_value v -> wf_db (update now d k v).
Proof. intros Hd Hv. unfold update. destruct (lookup now d k); apply wf_put_or_del; assumption. Qed.

Lemma wf_put_str d k b exp : wf_db d -> wf_db (put d k (VStr b) exp).
Proof. intro H. apply wf_put; [exact H | exact I]. Qed.
Lemma wf_put_list d k l exp : wf_db d -> wf_db (put_list d k l exp).
Proof. intro H. apply wf_put_or_del; [exact H | exact I]. Qed.
Lemma wf_put_hash d k h exp : wf_db d -> NoDup (map fst h) -> wf_db (put_hash d k h exp).
Proof. intros H Hn. apply wf_put_or_del; [exact H | exact Hn]. Qed.
Lemma wf_put_set d k s exp : wf_db d -> NoDup s -> wf_db (put_set d k s exp).
Proof. intros H Hn. apply wf_put_or_del; [exact H | exact Hn]. Qed.
Lemma wf_set_exp now d k e x : wf_db d -> lookup now d k = Some e -> wf_db (set_exp d k e x).
Proof. intros H Hl. apply wf_put; [exact H | exact (wf_lookup now d k e H Hl)]. Qed.
Lemma wf_put_val now d k k' e x : wf_db d -> lookup now d k = Some e -> wf_db (put d k' (e_val e) x).
Proof. intros H Hl. apply wf_put; [exact H | exact (wf_lookup now d k e H Hl)]. Qed.

Lemma get_hash_wf now d k h exp :
  wf_db d -> get_hash now d k = Some (Some (h, exp)) -> h <> [] /\ NoDup (map fst h).
Proof.
  intros Hd. unfold get_hash, hash_of. destruct (lookup now d k) as [e|] eqn:E; [|discriminate].
  pose proof (wf_lookup now d k e Hd E) as Hv. destruct (e_val e); try discriminate.
  intro H. injection H as <- _. exact Hv.
Qed.
Lemma get_set_wf now d k s exp :
  wf_db d -> get_set now d k = Some (Some (s, exp)) -> s <> [] /\ NoDup s.
Proof.
  intros Hd. unfold get_set, set_of. destruct (lookup now d k) as [e|] eqn:E; [|discriminate].
  pose proof (wf_lookup now d k e Hd E) as Hv. destruct (e_val e); try discriminate.
  intro H. injection H as <- _. exact Hv.
Qed.
Lemma get_list_wf now d k l exp :
  wf_db d -> get_list now d k = Some (Some (l, exp)) -> l <> [].
Proof.
  intros Hd. unfold get_list, list_of. destruct (lookup now d k) as [e|] eqn:E; [|discriminate].
  pose proof (wf_lookup now d k e Hd E) as Hv. destruct (e_val e); try discriminate.
  intro H. injection H as <- _. exact Hv.
Qed.

(* ---- membership facts for the byte-list set representation ---- *)
Lemma mem_bytes_in x l : mem_bytes x l = true <-> In x l.
Proof.
  induction l as [|y r IH]; cbn [mem_bytes In]; [split; [discriminate|tauto]|].
  rewrite orb_true_iff, IH. split.
  - intros [H|H]; [left; symmetry; apply bytes_eqb_eq; exact H | right; exact H].
  - intros [H|H]; [left; apply bytes_eqb_eq; symmetry; exact H | right; exact H].
Qed.
Lemma mem_bytes_notin x l : mem_bytes x l = false <-> ~ In x l.
Proof.
  rewrite <- mem_bytes_in. destruct (mem_bytes x l); split; intro H.
  - discriminate.
  - exfalso. apply H. reflexivity.
  - discriminate.
  - reflexivity.
Qed.
Lemma in_remove_bytes x y l : In y (remove_bytes x l) <-> y <> x /\ In y l.
Proof.
  induction l as [|z r IH]; cbn [remove_bytes In]; [tauto|].
  destruct (bytes_eqb x z) eqn:E.
  - apply bytes_eqb_eq in E. subst z. rewrite IH. split; [tauto|].
    intros [Hne [H|H]]; [congruence|tauto].
  - apply bytes_eqb_neq in E. cbn [In]. rewrite IH. split.
    + intros [H|H]; [subst; split; [congruence|auto] | tauto].
    + tauto.
Qed.
Lemma NoDup_remove_bytes x l : NoDup l -> NoDup (remove_bytes x l).
Proof.
  induction l as [|z r IH]; cbn [remove_bytes]; intro H; [constructor|].
  inversion H as [|? ? Hn Hr]; subst.
  destruct (bytes_eqb x z); [apply IH; exact Hr|].
  constructor; [|apply IH; exact Hr]. intro Hin. apply in_remove_bytes in Hin. tauto.
Qed.
Lemma NoDup_snoc (x : bytes) l : NoDup l -> ~ In x l -> NoDup (l ++ [x]).
Proof.
  induction l as [|z r IH]; cbn [app]; intros H Hn.
  - constructor; [intros []|constructor].
  - inversion H as [|? ? Hz Hr]; subst. constructor.
    + intro Hin. apply in_app_or in Hin. destruct Hin as [Hin|[Hin|[]]]; [contradiction|].
      apply Hn. left. symmetry. exact Hin.
    + apply IH; [exact Hr|]. intro Hin. apply Hn. right. exact Hin.
Qed.
Lemma in_dedup_bytes x l : In x (dedup_bytes l) -> In x l.
Proof.
  induction l as [|y r IH]; cbn [dedup_bytes]; [tauto|].
  destruct (mem_bytes y r); [intro H; right; apply IH; exact H|].
  intros [H|H]; [left; exact H | right; apply IH; exact H].
Qed.
Lemma NoDup_dedup_bytes l : NoDup (dedup_bytes l).
Proof.
  induction l as [|y r IH]; cbn [dedup_bytes]; [constructor|].
  destruct (mem_bytes y r) eqn:E; [exact IH|].
  constructor; [|exact IH]. intro Hin. apply in_dedup_bytes in Hin.
  apply mem_bytes_notin in E. contradiction.
Qed.

(* ---- helpers of the hash and set commands keep the representation invariant ---- *)
Lemma hset_all_nodup ps : forall h nx h' n,
  hset_all h ps nx = (h', n) -> NoDup (map fst h) -> NoDup (map fst h').
Proof.
  induction ps as [|[f v] r IH]; intros h nx h' n; cbn [hset_all].
  - intro H. injection H as <- _. auto.
  - destruct (amem h f).
    + destruct (hset_all (if nx then h else aset h f v) r nx) as [h1 n1] eqn:E.
      intro H. injection H as <- _. intro Hn. apply (IH _ _ _ _ E).
      destruct nx; [exact Hn | apply (NoDup_akeys_aset h); exact Hn].
    + destruct (hset_all (aset h f v) r nx) as [h1 n1] eqn:E.
      intro H. injection H as <- _. intro Hn. apply (IH _ _ _ _ E).
      apply (NoDup_akeys_aset h); exact Hn.
Qed.

Definition hdel_step (acc : list (bytes * bytes) * Z) (f : bytes) : list (bytes * bytes) * Z :=
  let '(h, n) := acc in if amem h f then (adel h f, n + 1) else (h, n).
Lemma hdel_fold_nodup fs : forall h n h' n',
  fold_left hdel_step fs (h, n) = (h', n') -> NoDup (map fst h) -> NoDup (map fst h').
Proof.
  induction fs as [|f r IH]; intros h n h' n'; cbn [fold_left].
  - intro H. injection H as <- _. auto.
  - unfold hdel_step at 2. destruct (amem h f); intros H Hn; apply (IH _ _ _ _ H); [|exact Hn].
    apply (NoDup_akeys_adel h). exact Hn.
Qed.

Definition sadd_step (acc : list bytes * Z) (m : bytes) : list bytes * Z :=
  let '(s, n) := acc in if mem_bytes m s then (s, n) else (s ++ [m], n + 1).
Lemma sadd_fold_nodup ms : forall s n s' n',
  fold_left sadd_step ms (s, n) = (s', n') -> NoDup s -> NoDup s'.
Proof.
  induction ms as [|m r IH]; intros s n s' n'; cbn [fold_left].
  - intro H. injection H as <- _. auto.
  - unfold sadd_step at 2. destruct (mem_bytes m s) eqn:E; intros H Hn; apply (IH _ _ _ _ H); [exact Hn|].
    apply NoDup_snoc; [exact Hn | apply mem_bytes_notin; exact E].
Qed.

Definition srem_step (acc : list bytes * Z) (m : bytes) : list bytes * Z :=
  let '(s, n) := acc in if mem_bytes m s then (remove_bytes m s, n + 1) else (s, n).
Lemma srem_fold_nodup ms : forall s n s' n',
  fold_left srem_step ms (s, n) = (s', n') -> NoDup s -> NoDup s'.
Proof.
  induction ms as [|m r IH]; intros s n s' n'; cbn [fold_left].
  - intro H. injection H as <- _. auto.
  - unfold srem_step at 2. destruct (mem_bytes m s) eqn:E; intros H Hn; apply (IH _ _ _ _ H); [|exact Hn].
    apply NoDup_remove_bytes. exact Hn.
Qed.

Lemma set_operands_nodup now d : wf_db d -> forall ks ops,
  set_operands now d ks = Some ops -> Forall (@NoDup bytes) ops.
Proof.
  intros Hd. induction ks as [|k r IH]; intros ops; cbn [set_operands].
  - intro H. injection H as <-. constructor.
  - destruct (get_set now d k) as [cur|] eqn:E; [|discriminate].
    destruct (set_operands now d r) as [rest|]; [|discriminate].
    intro H. injection H as <-. constructor; [|apply IH; reflexivity].
    destruct cur as [[s e]|]; [|constructor]. apply (get_set_wf now d k s e Hd E).
Qed.
Lemma set_operands_um_nodup now d : wf_db d -> forall ks ops,
  set_operands_until_missing now d ks = Some ops -> Forall (@NoDup bytes) ops.
Proof.
  intros Hd. induction ks as [|k r IH]; intros ops; cbn [set_operands_until_missing].
  - intro H. injection H as <-. constructor.
  - destruct (get_set now d k) as [[[s e]|]|] eqn:E; [| |discriminate].
    + destruct (set_operands_until_missing now d r) as [rest|]; [|discriminate].
      intro H. injection H as <-. constructor; [|apply IH; reflexivity].
      apply (get_set_wf now d k s e Hd E).
    + intro H. injection H as <-. repeat constructor.
Qed.
Lemma setop_operands_nodup o now d ks ops : wf_db d ->
  setop_operands o now d ks = Some ops -> Forall (@NoDup bytes) ops.
Proof.
  intros Hd. destruct o; cbn [setop_operands].
  - apply set_operands_um_nodup; exact Hd.
  - apply set_operands_nodup; exact Hd.
  - destruct ks as [|k r]; [intro H; injection H as <-; constructor|].
    destruct (get_set now d k) as [[[s e]|]|] eqn:E.
    + apply set_operands_nodup; exact Hd.
    + intro H. injection H as <-. repeat constructor.
    + apply set_operands_nodup; exact Hd.
Qed.
Lemma setop_fn_nodup o ops : Forall (@NoDup bytes) ops -> NoDup (setop_fn o ops).
Proof.
  intro H. destruct o; cbn [setop_fn].
  - unfold sinter_l. destruct ops as [|s r]; [constructor|]. apply NoDup_filter. apply (Forall_inv H).
  - unfold sunion_l. apply NoDup_dedup_bytes.
  - unfold sdiff_l. destruct ops as [|s r]; [constructor|]. apply NoDup_filter. apply (Forall_inv H).
Qed.

Definition wfp (f : cmd) : Prop := forall now d args, wf_db d -> wf_db (fst (f now d args)).

Lemma wf_put_val2 now d d0 k k' e x :
  wf_db d0 -> wf_db d -> lookup now d k = Some e -> wf_db (put d0 k' (e_val e) x).
Proof. intros H0 H Hl. apply wf_put; [exact H0 | exact (wf_lookup now d k e H Hl)]. Qed.
#[export] Hint Resolve wf_put_val2 | 5 : c06wf.
#[export] Hint Resolve wf_put_str wf_put_list wf_del wf_set_exp wf_put_val wf_put_hash wf_put_set : c06wf.

Ltac wf_destruct_head :=
  match goal with
  | |- wf_db ?T => let x := hs T in tryif is_var x then destruct x else destruct x eqn:?
  end.

Ltac wf_step :=
  lazymatch goal with
  | |- wf_db (fst (_, _)) => cbn [fst]
  | |- wf_db (fst (match _ with _ => _ end)) => wf_destruct_head
  | |- wf_db (match _ with _ => _ end) => wf_destruct_head
  | |- wf_db _ => solve [eauto with c06wf]
  end.

Ltac wf_cmd := cbv beta zeta; repeat wf_step.

Lemma set_core_wf now d k v o : wf_db d -> wf_db (fst (set_core now d k v o)).
Proof. intro Hd. unfold set_core. wf_cmd. Qed.
Lemma incr_core_wf now d k dl : wf_db d -> wf_db (fst (incr_core now d k dl)).
Proof. intro Hd. unfold incr_core. wf_cmd. Qed.
Lemma lmove_core_wf now d s t a b : wf_db d -> wf_db (fst (lmove_core now d s t a b)).
Proof. intro Hd. unfold lmove_core. wf_cmd. Qed.
Lemma expire_core_wf now d k t c : wf_db d -> wf_db (fst (expire_core now d k t c)).
Proof. intro Hd. unfold expire_core. wf_cmd. Qed.
Lemma lmpop_keys_wf now d keys lft c : wf_db d -> wf_db (fst (lmpop_keys now d keys lft c)).
Proof.
  intro Hd. induction keys as [|k r IH]; cbn [lmpop_keys]; [exact Hd|].
  destruct (get_list now d k) as [[[l exp]|]|]; [ | exact IH | exact Hd ].
  wf_cmd.
Qed.
Lemma mset_fold_wf ps : forall d, wf_db d ->
  wf_db (fold_left (fun d (kv : bytes * bytes) => put d (fst kv) (VStr (snd kv)) None) ps d).
Proof.
  induction ps as [|kv r IH]; intros d Hd; cbn [fold_left]; [exact Hd|].
  apply IH. apply wf_put_str. exact Hd.
Qed.
Lemma del_fold_wf now args : forall d r, wf_db d ->
  wf_db (fst (fold_left (fun (acc : db * resp) k => let '(d, r) := acc in
               match r with
               | RInt n => match lookup now d k with
                           | Some _ => (del d k, RInt (n + 1))
                           | None => (d, RInt n)
                           end
               | _ => acc
               end) args (d, r))).
Proof.
  induction args as [|k r0 IH]; intros d r Hd; cbn [fold_left]; [exact Hd|].
  destruct r; try (apply IH; exact Hd).
  destruct (lookup now d k); apply IH; [apply wf_del|]; exact Hd.
Qed.
Lemma store_str_or_del_wf d k b : wf_db d -> wf_db (store_str_or_del d k b).
Proof. intro Hd. unfold store_str_or_del. wf_cmd. Qed.
#[export] Hint Resolve set_core_wf incr_core_wf lmove_core_wf expire_core_wf lmpop_keys_wf
  mset_fold_wf del_fold_wf store_str_or_del_wf : c06wf.

Lemma cmd_set_wf : wfp cmd_set.
Proof. intros now d args Hd. unfold cmd_set. wf_cmd. Qed.
Lemma cmd_setnx_wf : wfp cmd_setnx.
Proof. intros now d args Hd. unfold cmd_setnx. wf_cmd. Qed.
Lemma cmd_setex_wf u : wfp (cmd_setex u).
Proof. intros now d args Hd. unfold cmd_setex. wf_cmd. Qed.
Lemma cmd_get_wf : wfp cmd_get.
Proof. intros now d args Hd. unfold cmd_get. wf_cmd. Qed.
Lemma cmd_getset_wf : wfp cmd_getset.
Proof. intros now d args Hd. unfold cmd_getset. wf_cmd. Qed.
Lemma cmd_getdel_wf : wfp cmd_getdel.
Proof. intros now d args Hd. unfold cmd_getdel. wf_cmd. Qed.
Lemma cmd_getex_wf : wfp cmd_getex.
Proof. intros now d args Hd. unfold cmd_getex. wf_cmd. Qed.
Lemma cmd_append_wf : wfp cmd_append.
Proof. intros now d args Hd. unfold cmd_append. wf_cmd. Qed.
Lemma cmd_strlen_wf : wfp cmd_strlen.
Proof. intros now d args Hd. unfold cmd_strlen. wf_cmd. Qed.
Lemma cmd_getrange_wf : wfp cmd_getrange.
Proof. intros now d args Hd. unfold cmd_getrange. wf_cmd. Qed.
Lemma cmd_setrange_wf : wfp cmd_setrange.
Proof. intros now d args Hd. unfold cmd_setrange. wf_cmd. Qed.
Lemma cmd_incr_wf dl : wfp (cmd_incr dl).
Proof. intros now d args Hd. unfold cmd_incr. wf_cmd. Qed.
Lemma cmd_incrby_wf sg : wfp (cmd_incrby sg).
Proof. intros now d args Hd. unfold cmd_incrby. wf_cmd. Qed.
Lemma cmd_mget_wf : wfp cmd_mget.
Proof. intros now d args Hd. unfold cmd_mget. wf_cmd. Qed.
Lemma cmd_mset_wf : wfp cmd_mset.
Proof. intros now d args Hd. unfold cmd_mset. wf_cmd. Qed.
Lemma cmd_msetnx_wf : wfp cmd_msetnx.
Proof. intros now d args Hd. unfold cmd_msetnx. wf_cmd. Qed.
Lemma cmd_push_wf a b : wfp (cmd_push a b).
Proof. intros now d args Hd. unfold cmd_push. wf_cmd. Qed.
Lemma cmd_pop_wf a : wfp (cmd_pop a).
Proof. intros now d args Hd. unfold cmd_pop. wf_cmd. Qed.
Lemma cmd_llen_wf : wfp cmd_llen.
Proof. intros now d args Hd. unfold cmd_llen. wf_cmd. Qed.
Lemma cmd_lindex_wf : wfp cmd_lindex.
Proof. intros now d args Hd. unfold cmd_lindex. wf_cmd. Qed.
Lemma cmd_lrange_wf : wfp cmd_lrange.
Proof. intros now d args Hd. unfold cmd_lrange. wf_cmd. Qed.
Lemma cmd_lset_wf : wfp cmd_lset.
Proof. intros now d args Hd. unfold cmd_lset. wf_cmd. Qed.
Lemma cmd_linsert_wf : wfp cmd_linsert.
Proof. intros now d args Hd. unfold cmd_linsert. wf_cmd. Qed.
Lemma cmd_lrem_wf : wfp cmd_lrem.
Proof. intros now d args Hd. unfold cmd_lrem. wf_cmd. Qed.
Lemma cmd_ltrim_wf : wfp cmd_ltrim.
Proof. intros now d args Hd. unfold cmd_ltrim. wf_cmd. Qed.
Lemma cmd_lpos_wf : wfp cmd_lpos.
Proof. intros now d args Hd. unfold cmd_lpos. wf_cmd. Qed.
Lemma cmd_lmove_wf : wfp cmd_lmove.
Proof. intros now d args Hd. unfold cmd_lmove. wf_cmd. Qed.
Lemma cmd_rpoplpush_wf : wfp cmd_rpoplpush.
Proof. intros now d args Hd. unfold cmd_rpoplpush. wf_cmd. Qed.
Lemma cmd_lmpop_wf : wfp cmd_lmpop.
Proof. intros now d args Hd. unfold cmd_lmpop. wf_cmd. Qed.
Lemma cmd_hget_wf : wfp cmd_hget.
Proof. intros now d args Hd. unfold cmd_hget. wf_cmd. Qed.
Lemma cmd_hmget_wf : wfp cmd_hmget.
Proof. intros now d args Hd. unfold cmd_hmget. wf_cmd. Qed.
Lemma cmd_hgetall_wf : wfp cmd_hgetall.
Proof. intros now d args Hd. unfold cmd_hgetall. wf_cmd. Qed.
Lemma cmd_hkeys_wf b : wfp (cmd_hkeys b).
Proof. intros now d args Hd. unfold cmd_hkeys. wf_cmd. Qed.
Lemma cmd_hlen_wf : wfp cmd_hlen.
Proof. intros now d args Hd. unfold cmd_hlen. wf_cmd. Qed.
Lemma cmd_hexists_wf b : wfp (cmd_hexists b).
Proof. intros now d args Hd. unfold cmd_hexists. wf_cmd. Qed.
Lemma cmd_hrandfield_wf : wfp cmd_hrandfield.
Proof. intros now d args Hd. unfold cmd_hrandfield. wf_cmd. Qed.
Lemma cmd_hscan_wf : wfp cmd_hscan.
Proof. intros now d args Hd. unfold cmd_hscan. wf_cmd. Qed.
Lemma cmd_scard_wf : wfp cmd_scard.
Proof. intros now d args Hd. unfold cmd_scard. wf_cmd. Qed.
Lemma cmd_sismember_wf : wfp cmd_sismember.
Proof. intros now d args Hd. unfold cmd_sismember. wf_cmd. Qed.
Lemma cmd_smismember_wf : wfp cmd_smismember.
Proof. intros now d args Hd. unfold cmd_smismember. wf_cmd. Qed.
Lemma cmd_smembers_wf : wfp cmd_smembers.
Proof. intros now d args Hd. unfold cmd_smembers. wf_cmd. Qed.
Lemma cmd_srandmember_wf : wfp cmd_srandmember.
Proof. intros now d args Hd. unfold cmd_srandmember. wf_cmd. Qed.
Lemma cmd_sscan_wf : wfp cmd_sscan.
Proof. intros now d args Hd. unfold cmd_sscan. wf_cmd. Qed.
Lemma cmd_setop_wf o : wfp (cmd_setop o).
Proof. intros now d args Hd. unfold cmd_setop. wf_cmd. Qed.
Lemma cmd_sintercard_wf : wfp cmd_sintercard.
Proof. intros now d args Hd. unfold cmd_sintercard. wf_cmd. Qed.
Lemma cmd_del_wf : wfp cmd_del.
Proof. intros now d args Hd. unfold cmd_del. wf_cmd. Qed.
Lemma cmd_exists_wf : wfp cmd_exists.
Proof. intros now d args Hd. unfold cmd_exists. wf_cmd. Qed.
Lemma cmd_touch_wf : wfp cmd_touch.
Proof. exact cmd_exists_wf. Qed.
Lemma cmd_type_wf : wfp cmd_type.
Proof. intros now d args Hd. unfold cmd_type. wf_cmd. Qed.
Lemma cmd_rename_wf nx : wfp (cmd_rename nx).
Proof. intros now d args Hd. unfold cmd_rename. wf_cmd. Qed.
Lemma cmd_copy_wf : wfp cmd_copy.
Proof. intros now d args Hd. unfold cmd_copy. wf_cmd. Qed.
Lemma cmd_keys_wf : wfp cmd_keys.
Proof. intros now d args Hd. unfold cmd_keys. wf_cmd. Qed.
Lemma cmd_randomkey_wf : wfp cmd_randomkey.
Proof. intros now d args Hd. unfold cmd_randomkey. wf_cmd. Qed.
Lemma cmd_dbsize_wf : wfp cmd_dbsize.
Proof. intros now d args Hd. unfold cmd_dbsize. wf_cmd. Qed.
Lemma cmd_scan_wf : wfp cmd_scan.
Proof. intros now d args Hd. unfold cmd_scan. wf_cmd. Qed.
Lemma cmd_expire_wf u r : wfp (cmd_expire u r).
Proof. intros now d args Hd. unfold cmd_expire. wf_cmd. Qed.
Lemma cmd_ttl_wf u r : wfp (cmd_ttl u r).
Proof. intros now d args Hd. unfold cmd_ttl. wf_cmd. Qed.
Lemma cmd_persist_wf : wfp cmd_persist.
Proof. intros now d args Hd. unfold cmd_persist. wf_cmd. Qed.
Lemma cmd_setbit_wf : wfp cmd_setbit.
Proof. intros now d args Hd. unfold cmd_setbit. wf_cmd. Qed.
Lemma cmd_getbit_wf : wfp cmd_getbit.
Proof. intros now d args Hd. unfold cmd_getbit. wf_cmd. Qed.
Lemma cmd_bitcount_wf : wfp cmd_bitcount.
Proof. intros now d args Hd. unfold cmd_bitcount. wf_cmd. Qed.
Lemma cmd_bitpos_wf : wfp cmd_bitpos.
Proof. intros now d args Hd. unfold cmd_bitpos. wf_cmd. Qed.
Lemma cmd_bitop_wf : wfp cmd_bitop.
Proof. intros now d args Hd. unfold cmd_bitop. wf_cmd. Qed.
Lemma cmd_bitfield_wf ro : wfp (cmd_bitfield ro).
Proof. intros now d args Hd. unfold cmd_bitfield. wf_cmd. Qed.
Lemma cmd_lcs_wf : wfp cmd_lcs.
Proof. intros now d args Hd. unfold cmd_lcs. wf_cmd. Qed.
Lemma cmd_sort_wf : wfp cmd_sort.
Proof. intros now d args Hd. unfold cmd_sort. wf_cmd. Qed.
Lemma cmd_incrbyfloat_wf : wfp cmd_incrbyfloat.
Proof. intros now d args Hd. unfold cmd_incrbyfloat. wf_cmd. Qed.

(* --- hash and set writers: the representation invariant needs the helper lemmas --- *)
Lemma cmd_hset_wf m : wfp (cmd_hset m).
Proof.
  intros now d args Hd. unfold cmd_hset.
  destruct args as [|k [|f0 fv]]; [exact Hd | exact Hd | ].
  destruct (pairs_of (f0 :: fv)) as [ps|]; [|exact Hd].
  destruct (N.eqb m 2 && negb (Nat.eqb (length ps) 1)); [exact Hd|].
  destruct (get_hash now d k) as [cur|] eqn:E; [|exact Hd].
  assert (Hn : NoDup (map fst (fst match cur with Some (h, e) => (h, e) | None => ([], None) end))).
  { destruct cur as [[h e]|]; cbn [fst]; [apply (get_hash_wf now d k h e Hd E) | constructor]. }
  destruct (match cur with Some (h, e) => (h, e) | None => ([], None) end) as [h0 exp].
  cbn [fst] in Hn.
  destruct (hset_all h0 ps (N.eqb m 2)) as [h' n] eqn:Eh. cbn [fst].
  destruct (N.eqb m 2 && (n =? 0)); [exact Hd|].
  apply wf_put_hash; [exact Hd | exact (hset_all_nodup ps _ _ _ _ Eh Hn)].
Qed.

Lemma cmd_hdel_wf : wfp cmd_hdel.
Proof.
  intros now d args Hd. unfold cmd_hdel.
  destruct args as [|k [|f0 fs]]; [exact Hd | exact Hd | ].
  destruct (get_hash now d k) as [[[h exp]|]|] eqn:E; [ | exact Hd | exact Hd ].
  change (fun (acc : list (bytes * bytes) * Z) f => let '(h, n) := acc in
            if amem h f then (adel h f, n + 1) else (h, n)) with hdel_step.
  destruct (fold_left hdel_step (f0 :: fs) (h, 0)) as [h' n] eqn:Ef. cbn [fst].
  destruct (n =? 0); [exact Hd|].
  apply wf_put_hash; [exact Hd|].
  apply (hdel_fold_nodup _ _ _ _ _ Ef). apply (get_hash_wf now d k h exp Hd E).
Qed.

Lemma cmd_hincrby_wf : wfp cmd_hincrby.
Proof.
  intros now d args Hd. unfold cmd_hincrby.
  destruct args as [|k [|f [|n [|? ?]]]]; try exact Hd.
  destruct (parse_i64 n) as [delta|]; [|exact Hd].
  destruct (get_hash now d k) as [cur|] eqn:E; [|exact Hd].
  assert (Hn : NoDup (map fst (fst match cur with Some (h, e) => (h, e) | None => ([], None) end))).
  { destruct cur as [[h e]|]; cbn [fst]; [apply (get_hash_wf now d k h e Hd E) | constructor]. }
  destruct (match cur with Some (h, e) => (h, e) | None => ([], None) end) as [h0 exp].
  cbn [fst] in Hn.
  destruct (aget h0 f) as [old|].
  - destruct (strict_i64 old) as [v|]; [|exact Hd].
    destruct (in_i64 (v + delta)); [|exact Hd]. cbn [fst].
    apply wf_put_hash; [exact Hd | apply (NoDup_akeys_aset h0); exact Hn].
  - cbn [fst]. apply wf_put_hash; [exact Hd | apply (NoDup_akeys_aset h0); exact Hn].
Qed.

Lemma cmd_hincrbyfloat_wf : wfp cmd_hincrbyfloat.
Proof.
  intros now d args Hd. unfold cmd_hincrbyfloat.
  destruct args as [|k [|f [|n [|? ?]]]]; try exact Hd.
  destruct (parse_score n) as [delta|]; [|exact Hd].
  destruct (get_hash now d k) as [cur|] eqn:E; [|exact Hd].
  assert (Hn : NoDup (map fst (fst match cur with Some (h, e) => (h, e) | None => ([], None) end))).
  { destruct cur as [[h e]|]; cbn [fst]; [apply (get_hash_wf now d k h e Hd E) | constructor]. }
  destruct (match cur with Some (h, e) => (h, e) | None => ([], None) end) as [h0 exp].
  cbn [fst] in Hn.
  destruct (aget h0 f) as [old|].
  - destruct (parse_score old) as [v|]; [|exact Hd]. cbn [fst].
    apply wf_put_hash; [exact Hd | apply (NoDup_akeys_aset h0); exact Hn].
  - cbn [fst]. apply wf_put_hash; [exact Hd | apply (NoDup_akeys_aset h0); exact Hn].
Qed.

Lemma cmd_sadd_wf : wfp cmd_sadd.
Proof.
  intros now d args Hd. unfold cmd_sadd, sadd_all.
  destruct args as [|k [|m0 ms]]; [exact Hd | exact Hd | ].
  destruct (get_set now d k) as [cur|] eqn:E; [|exact Hd].
  assert (Hn : NoDup (fst match cur with Some (s, e) => (s, e) | None => ([], None) end)).
  { destruct cur as [[s e]|]; cbn [fst]; [apply (get_set_wf now d k s e Hd E) | constructor]. }
  destruct (match cur with Some (s, e) => (s, e) | None => ([], None) end) as [s0 exp].
  cbn [fst] in Hn.
  change (fun (acc : list bytes * Z) m => let '(s, n) := acc in
            if mem_bytes m s then (s, n) else (s ++ [m], n + 1)) with sadd_step.
  destruct (fold_left sadd_step (m0 :: ms) (s0, 0)) as [s' n] eqn:Ef. cbn [fst].
  destruct (n =? 0); [exact Hd|].
  apply wf_put_set; [exact Hd | exact (sadd_fold_nodup _ _ _ _ _ Ef Hn)].
Qed.

Lemma cmd_srem_wf : wfp cmd_srem.
Proof.
  intros now d args Hd. unfold cmd_srem.
  destruct args as [|k [|m0 ms]]; [exact Hd | exact Hd | ].
  destruct (get_set now d k) as [[[s exp]|]|] eqn:E; [ | exact Hd | exact Hd ].
  change (fun (acc : list bytes * Z) m => let '(s, n) := acc in
            if mem_bytes m s then (remove_bytes m s, n + 1) else (s, n)) with srem_step.
  destruct (fold_left srem_step (m0 :: ms) (s, 0)) as [s' n] eqn:Ef. cbn [fst].
  destruct (n =? 0); [exact Hd|].
  apply wf_put_set; [exact Hd|].
  apply (srem_fold_nodup _ _ _ _ _ Ef). apply (get_set_wf now d k s exp Hd E).
Qed.

Lemma cmd_smove_wf : wfp cmd_smove.
Proof.
  intros now d args Hd. unfold cmd_smove.
  destruct args as [|src [|dst [|m [|? ?]]]]; try exact Hd.
  destruct (get_set now d src) as [[[s exp]|]|] eqn:E; [ | exact Hd | exact Hd ].
  destruct (get_set now d dst) as [dcur|] eqn:E2; [|exact Hd].
  destruct (negb (mem_bytes m s)); [exact Hd|].
  destruct (bytes_eqb src dst); [exact Hd|].
  assert (H1 : wf_db (put_set d src (remove_bytes m s) exp)).
  { apply wf_put_set; [exact Hd|]. apply NoDup_remove_bytes. apply (get_set_wf now d src s exp Hd E). }
  assert (Hn : NoDup (fst match dcur with Some (s2, e2) => (s2, e2) | None => ([], None) end)).
  { destruct dcur as [[s2 e2]|]; cbn [fst]; [apply (get_set_wf now d dst s2 e2 Hd E2) | constructor]. }
  destruct (match dcur with Some (s2, e2) => (s2, e2) | None => ([], None) end) as [s2 e2].
  cbn [fst] in *.
  destruct (mem_bytes m s2) eqn:Em; [exact H1|].
  apply wf_put_set; [exact H1|]. apply NoDup_snoc; [exact Hn | apply mem_bytes_notin; exact Em].
Qed.

Lemma cmd_setop_store_wf o : wfp (cmd_setop_store o).
Proof.
  intros now d args Hd. unfold cmd_setop_store.
  destruct args as [|dst [|k0 ks]]; [exact Hd | exact Hd | ].
  destruct (setop_operands o now d (k0 :: ks)) as [ops|] eqn:E; [|exact Hd].
  cbv zeta. cbn [fst].
  pose proof (setop_fn_nodup o ops (setop_operands_nodup o now d _ ops Hd E)) as Hn.
  destruct (setop_fn o ops) as [|x r] eqn:Er.
  - destruct (aget (d_map d) dst); [apply wf_del|]; exact Hd.
  - apply wf_put; [exact Hd|]. cbn [wf_value]. split; [discriminate | exact Hn].
Qed.

Lemma table_wf : Forall (fun x : cmd * option vtype => wfp (fst x)) table.
Proof.
  unfold table.
  apply Forall_cons. exact (cmd_set_wf).
  apply Forall_cons. exact (cmd_setnx_wf).
  apply Forall_cons. exact (cmd_setex_wf sec).
  apply Forall_cons. exact (cmd_setex_wf msec).
  apply Forall_cons. exact (cmd_get_wf).
  apply Forall_cons. exact (cmd_getset_wf).
  apply Forall_cons. exact (cmd_getdel_wf).
  apply Forall_cons. exact (cmd_getex_wf).
  apply Forall_cons. exact (cmd_append_wf).
  apply Forall_cons. exact (cmd_strlen_wf).
  apply Forall_cons. exact (cmd_getrange_wf).
  apply Forall_cons. exact (cmd_getrange_wf).
  apply Forall_cons. exact (cmd_setrange_wf).
  apply Forall_cons. exact (cmd_incr_wf 1).
  apply Forall_cons. exact (cmd_incr_wf (-1)).
  apply Forall_cons. exact (cmd_incrby_wf 1).
  apply Forall_cons. exact (cmd_incrby_wf (-1)).
  apply Forall_cons. exact (cmd_mget_wf).
  apply Forall_cons. exact (cmd_mset_wf).
  apply Forall_cons. exact (cmd_msetnx_wf).
  apply Forall_cons. exact (cmd_push_wf true false).
  apply Forall_cons. exact (cmd_push_wf false false).
  apply Forall_cons. exact (cmd_push_wf true true).
  apply Forall_cons. exact (cmd_push_wf false true).
  apply Forall_cons. exact (cmd_pop_wf true).
  apply Forall_cons. exact (cmd_pop_wf false).
  apply Forall_cons. exact (cmd_llen_wf).
  apply Forall_cons. exact (cmd_lindex_wf).
  apply Forall_cons. exact (cmd_lrange_wf).
  apply Forall_cons. exact (cmd_lset_wf).
  apply Forall_cons. exact (cmd_linsert_wf).
  apply Forall_cons. exact (cmd_lrem_wf).
  apply Forall_cons. exact (cmd_ltrim_wf).
  apply Forall_cons. exact (cmd_lpos_wf).
  apply Forall_cons. exact (cmd_lmove_wf).
  apply Forall_cons. exact (cmd_rpoplpush_wf).
  apply Forall_cons. exact (cmd_lmpop_wf).
  apply Forall_cons. exact (cmd_hset_wf 0).
  apply Forall_cons. exact (cmd_hset_wf 1).
  apply Forall_cons. exact (cmd_hset_wf 2).
  apply Forall_cons. exact (cmd_hget_wf).
  apply Forall_cons. exact (cmd_hmget_wf).
  apply Forall_cons. exact (cmd_hgetall_wf).
  apply Forall_cons. exact (cmd_hkeys_wf false).
  apply Forall_cons. exact (cmd_hkeys_wf true).
  apply Forall_cons. exact (cmd_hlen_wf).
  apply Forall_cons. exact (cmd_hexists_wf false).
  apply Forall_cons. exact (cmd_hexists_wf true).
  apply Forall_cons. exact (cmd_hdel_wf).
  apply Forall_cons. exact (cmd_hincrby_wf).
  apply Forall_cons. exact (cmd_hrandfield_wf).
  apply Forall_cons. exact (cmd_hscan_wf).
  apply Forall_cons. exact (cmd_sadd_wf).
  apply Forall_cons. exact (cmd_srem_wf).
  apply Forall_cons. exact (cmd_scard_wf).
  apply Forall_cons. exact (cmd_sismember_wf).
  apply Forall_cons. exact (cmd_smismember_wf).
  apply Forall_cons. exact (cmd_smembers_wf).
  apply Forall_cons. exact (cmd_smove_wf).
  apply Forall_cons. exact (cmd_srandmember_wf).
  apply Forall_cons. exact (cmd_sscan_wf).
  apply Forall_cons. exact (cmd_setop_wf OpInter).
  apply Forall_cons. exact (cmd_setop_wf OpUnion).
  apply Forall_cons. exact (cmd_setop_wf OpDiff).
  apply Forall_cons. exact (cmd_setop_store_wf OpInter).
  apply Forall_cons. exact (cmd_setop_store_wf OpUnion).
  apply Forall_cons. exact (cmd_setop_store_wf OpDiff).
  apply Forall_cons. exact (cmd_sintercard_wf).
  apply Forall_cons. exact (cmd_del_wf).
  apply Forall_cons. exact (cmd_del_wf).
  apply Forall_cons. exact (cmd_exists_wf).
  apply Forall_cons. exact (cmd_touch_wf).
  apply Forall_cons. exact (cmd_type_wf).
  apply Forall_cons. exact (cmd_rename_wf false).
  apply Forall_cons. exact (cmd_rename_wf true).
  apply Forall_cons. exact (cmd_copy_wf).
  apply Forall_cons. exact (cmd_keys_wf).
  apply Forall_cons. exact (cmd_randomkey_wf).
  apply Forall_cons. exact (cmd_dbsize_wf).
  apply Forall_cons. exact (cmd_scan_wf).
  apply Forall_cons. exact (cmd_expire_wf sec true).
  apply Forall_cons. exact (cmd_expire_wf msec true).
  apply Forall_cons. exact (cmd_expire_wf sec false).
  apply Forall_cons. exact (cmd_expire_wf msec false).
  apply Forall_cons. exact (cmd_ttl_wf sec true).
  apply Forall_cons. exact (cmd_ttl_wf msec true).
  apply Forall_cons. exact (cmd_ttl_wf sec false).
  apply Forall_cons. exact (cmd_ttl_wf msec false).
  apply Forall_cons. exact (cmd_persist_wf).
  apply Forall_cons. exact (cmd_setbit_wf).
  apply Forall_cons. exact (cmd_getbit_wf).
  apply Forall_cons. exact (cmd_bitcount_wf).
  apply Forall_cons. exact (cmd_bitpos_wf).
  apply Forall_cons. exact (cmd_bitop_wf).
  apply Forall_cons. exact (cmd_bitfield_wf false).
  apply Forall_cons. exact (cmd_bitfield_wf true).
  apply Forall_cons. exact (cmd_lcs_wf).
  apply Forall_cons. exact (cmd_sort_wf).
  apply Forall_cons. exact (cmd_incrbyfloat_wf).
  apply Forall_cons. exact (cmd_hincrbyfloat_wf).
  apply Forall_nil.
Qed.

(* THEOREM 2.  No command can create an empty list/hash/set, a duplicate key, field or
   member, a version that is 0 or beyond the version counter. *)
Theorem C06_wf_preserved : forall name f now d args,
  data_cmd name = Some f -> wf_db d -> wf_db (fst (f now d args)).
Proof.
  intros name f now d args Hf.
  exact (table_sound (fun f _ => wfp f) table_wf name f Hf now d args).
Qed.
Print Assumptions C06_wf_preserved.

Theorem C06_wf_empty : wf_db empty_db.
Proof. exact wf_empty. Qed.
Print Assumptions C06_wf_empty.

(* any sequence of table commands started from the empty database stays well-formed *)
Fixpoint run_cmds (now : Z) (d : db) (cs : list (bytes * list bytes)) : db :=
  match cs with
  | [] => d
  | (name, args) :: r =>
    match data_cmd name with
    | Some f => run_cmds now (fst (f now d args)) r
    | None => run_cmds now d r
    end
  end.
Corollary C06_wf_reachable : forall now cs, wf_db (run_cmds now empty_db cs).
Proof.
  intros now cs. generalize empty_db wf_empty. induction cs as [|[name args] r IH]; intros d Hd; cbn [run_cmds].
  - exact Hd.
  - destruct (data_cmd name) as [f|] eqn:E; apply IH; [|exact Hd].
    exact (C06_wf_preserved name f now d args E Hd).
Qed.
Print Assumptions C06_wf_reachable.

(* SADD then SREM of the only member, HSET then HDEL, RPUSH then LPOP: keyspace empty again *)
Example C06_wf_ex :
  d_map (run_cmds 0 empty_db
    [ (s2b "sadd", [s2b "s"; s2b "a"]); (s2b "srem", [s2b "s"; s2b "a"; s2b "b"]);
      (s2b "hset", [s2b "h"; s2b "f"; s2b "v"]); (s2b "hdel", [s2b "h"; s2b "f"]);
      (s2b "rpush", [s2b "l"; s2b "x"]); (s2b "lpop", [s2b "l"]) ]) = [].
Proof. vm_compute. reflexivity. Qed.

(* consequence of the version clause: under [wf_db] a version identifies its entry *)
Lemma NoDup_map_inj {A B} (f : A -> B) l : NoDup (map f l) ->
  forall a b, In a l -> In b l -> f a = f b -> a = b.
Proof.
  induction l as [|x r IH]; intros Hn a b Ha Hb Hf; [destruct Ha|].
  cbn [map] in Hn. inversion Hn as [|? ? Hh Ht]; subst.
  destruct Ha as [->|Ha]; destruct Hb as [->|Hb].
  - reflexivity.
  - exfalso. apply Hh. rewrite Hf. apply in_map. exact Hb.
  - exfalso. apply Hh. rewrite <- Hf. apply in_map. exact Ha.
  - apply (IH Ht a b Ha Hb Hf).
Qed.
Corollary C06_versions_distinct : forall d k1 e1 k2 e2,
  wf_db d -> In (k1, e1) (d_map d) -> In (k2, e2) (d_map d) -> e_ver e1 = e_ver e2 ->
  k1 = k2 /\ e1 = e2.
Proof.
  intros d k1 e1 k2 e2 [_ [_ Hv]] H1 H2 He.
  pose proof (NoDup_map_inj (fun ke : bytes * entry => e_ver (snd ke)) (d_map d) Hv (k1, e1) (k2, e2) H1 H2 He) as H.
  injection H as -> ->. split; reflexivity.
Qed.
Print Assumptions C06_versions_distinct.

(* ================================================================== *)
(* 3. However the last element is removed, the key is gone             *)
(* ================================================================== *)
Lemma get_list_of_lookup now d k e l :
  lookup now d k = Some e -> e_val e = VList l -> get_list now d k = Some (Some (l, e_exp e)).
Proof. intros H Hv. unfold get_list, list_of. rewrite H, Hv. reflexivity. Qed.
Lemma get_hash_of_lookup now d k e h :
  lookup now d k = Some e -> e_val e = VHash h -> get_hash now d k = Some (Some (h, e_exp e)).
Proof. intros H Hv. unfold get_hash, hash_of. rewrite H, Hv. reflexivity. Qed.
Lemma get_set_of_lookup now d k e s :
  lookup now d k = Some e -> e_val e = VSet s -> get_set now d k = Some (Some (s, e_exp e)).
Proof. intros H Hv. unfold get_set, set_of. rewrite H, Hv. reflexivity. Qed.

Lemma lookup_put_list_nil now d k exp : lookup now (put_list d k [] exp) k = None.
Proof. apply lookup_del_same. Qed.
Lemma lookup_put_hash_nil now d k exp : lookup now (put_hash d k [] exp) k = None.
Proof. apply lookup_del_same. Qed.
Lemma lookup_put_set_nil now d k exp : lookup now (put_set d k [] exp) k = None.
Proof. apply lookup_del_same. Qed.

Lemma Zlen_cons {A} (x : A) l : Zlen (x :: l) = Zlen l + 1.
Proof. unfold Zlen. cbn [length]. lia. Qed.
Lemma Zlen_nonneg {A} (l : list A) : 0 <= Zlen l.
Proof. unfold Zlen. lia. Qed.
Lemma Zlen_pos {A} (l : list A) : l <> [] -> 1 <= Zlen l.
Proof. destruct l; [congruence|]. intros _. rewrite Zlen_cons. pose proof (Zlen_nonneg l). lia. Qed.

(* a key is a list (resp. set) or missing: the destination of LMOVE / SMOVE is acceptable *)
Definition typed_or_missing (t : vtype) (now : Z) (d : db) (k : bytes) : Prop :=
  match lookup now d k with Some e => type_of (e_val e) = t | None => True end.
Lemma get_list_some now d k : typed_or_missing TList now d k -> exists v, get_list now d k = Some v.
Proof.
  unfold typed_or_missing, get_list, list_of. destruct (lookup now d k) as [e|]; [|eauto].
  destruct (e_val e); try discriminate. eauto.
Qed.
Lemma get_set_some now d k : typed_or_missing TSet now d k -> exists v, get_set now d k = Some v.
Proof.
  unfold typed_or_missing, get_set, set_of. destruct (lookup now d k) as [e|]; [|eauto].
  destruct (e_val e); try discriminate. eauto.
Qed.

(* LPOP / RPOP key *)
Theorem C06_gone_pop : forall lft now d k e x,
  lookup now d k = Some e -> e_val e = VList [x] ->
  lookup now (fst (cmd_pop lft now d [k])) k = None.
Proof.
  intros lft now d k e x Hl Hv. unfold cmd_pop.
  rewrite (get_list_of_lookup now d k e [x] Hl Hv).
  destruct lft; cbn [rev app fst]; apply lookup_put_list_nil.
Qed.

(* LPOP / RPOP key count, count >= length (a stored list is not empty; count 0 takes nothing) *)
Theorem C06_gone_pop_count : forall lft now d k e l c n,
  lookup now d k = Some e -> e_val e = VList l -> l <> [] ->
  parse_i64 c = Some n -> Zlen l <= n ->
  lookup now (fst (cmd_pop lft now d [k; c])) k = None.
Proof.
  intros lft now d k e l c n Hl Hv Hne Hc Hn. unfold cmd_pop. rewrite Hc.
  pose proof (Zlen_nonneg l) as H0.
  assert (Hpos : 0 < Zlen l) by (destruct l; [congruence|rewrite Zlen_cons; pose proof (Zlen_nonneg l); lia]).
  destruct (n <? 0) eqn:E; [apply Z.ltb_lt in E; lia|].
  rewrite (get_list_of_lookup now d k e l Hl Hv).
  destruct (n =? 0) eqn:E0; [apply Z.eqb_eq in E0; lia|].
  assert (Hm : Z.to_nat (Z.min n (Zlen l)) = length l).
  { rewrite Z.min_r by lia. unfold Zlen. apply Nat2Z.id. }
  rewrite Hm. destruct lft; cbn [fst].
  - rewrite skipn_all. apply lookup_put_list_nil.
  - rewrite Nat.sub_diag. cbn [firstn]. apply lookup_put_list_nil.
Qed.

(* LREM key count x, when every element equals x and count covers the list *)
Lemma lrem_head_all x : forall l n,
  (forall y, In y l -> y = x) -> (length l <= n)%nat -> lrem_head n x l = ([], Zlen l).
Proof.
  induction l as [|y r IH]; intros n Hall Hn; cbn [lrem_head]; [reflexivity|].
  destruct n as [|n']; [cbn [length] in Hn; lia|].
  rewrite (Hall y (or_introl eq_refl)). rewrite bytes_eqb_refl.
  rewrite (IH n'); [ | intros z Hz; apply Hall; right; exact Hz | cbn [length] in Hn; lia ].
  rewrite Zlen_cons. reflexivity.
Qed.

Theorem C06_gone_lrem : forall now d k e l c n x,
  lookup now d k = Some e -> e_val e = VList l -> l <> [] ->
  (forall y, In y l -> y = x) ->
  parse_i64 c = Some n -> (n = 0 \/ Zlen l <= Z.abs n) ->
  lookup now (fst (cmd_lrem now d [k; c; x])) k = None.
Proof.
  intros now d k e l c n x Hl Hv Hne Hall Hc Hn. unfold cmd_lrem. rewrite Hc.
  rewrite (get_list_of_lookup now d k e l Hl Hv). cbv zeta.
  assert (Hlim : (if n =? 0 then length l else clamp (Z.abs n) (length l)) = length l).
  { destruct (n =? 0) eqn:E; [reflexivity|]. apply Z.eqb_neq in E.
    unfold clamp. destruct Hn as [Hn|Hn]; [contradiction|].
    unfold Zlen in Hn. rewrite Z.min_r by lia. apply Nat2Z.id. }
  rewrite Hlim. pose proof (Zlen_pos l Hne) as Hpos.
  assert (Hz : (Zlen l =? 0) = false) by (apply Z.eqb_neq; lia).
  destruct (0 <=? n).
  - rewrite (lrem_head_all x l (length l) Hall (le_n _)). rewrite Hz. cbn [fst].
    apply lookup_put_list_nil.
  - rewrite (lrem_head_all x (rev l) (length l)).
    + unfold Zlen. rewrite rev_length. fold (Zlen l). rewrite Hz. cbn [fst rev].
      apply lookup_put_list_nil.
    + intros y Hy. apply Hall. apply in_rev. exact Hy.
    + rewrite rev_length. apply le_n.
Qed.

(* LTRIM key start stop, when the kept range is empty *)
Theorem C06_gone_ltrim : forall now d k e l s t a b,
  lookup now d k = Some e -> e_val e = VList l -> l <> [] ->
  parse_i64 s = Some a -> parse_i64 t = Some b -> ltrim_list l a b = [] ->
  lookup now (fst (cmd_ltrim now d [k; s; t])) k = None.
Proof.
  intros now d k e l s t a b Hl Hv Hne Hs Ht Hemp. unfold cmd_ltrim. rewrite Hs, Ht.
  rewrite (get_list_of_lookup now d k e l Hl Hv). cbv zeta. rewrite Hemp.
  destruct l as [|y r]; [congruence|]. cbn [length Nat.eqb fst]. apply lookup_put_list_nil.
Qed.
Lemma ltrim_list_empty_range l a b : 0 <= b < a -> ltrim_list l a b = [].
Proof.
  intros H. unfold ltrim_list. cbv zeta.
  destruct (a <? 0) eqn:Ea; [apply Z.ltb_lt in Ea; lia|].
  destruct (b <? 0) eqn:Eb; [apply Z.ltb_lt in Eb; lia|]. rewrite Ea.
  destruct (b <? a) eqn:Eab; [reflexivity|]. apply Z.ltb_ge in Eab. lia.
Qed.

(* LMOVE / RPOPLPUSH: the source, when its only element moves to another key *)
Lemma lmove_core_gone now d src dst sl dl e x :
  lookup now d src = Some e -> e_val e = VList [x] -> src <> dst ->
  typed_or_missing TList now d dst ->
  lookup now (fst (lmove_core now d src dst sl dl)) src = None.
Proof.
  intros Hl Hv Hne Hdst. unfold lmove_core.
  rewrite (get_list_of_lookup now d src e [x] Hl Hv).
  destruct (get_list_some now d dst Hdst) as [dstv Hd]. rewrite Hd.
  assert (Hp : (if sl then match [x] with y :: r => Some (y, r) | [] => None end
                else match rev [x] with y :: r => Some (y, rev r) | [] => None end) = Some (x, [])).
  { destruct sl; reflexivity. }
  cbv zeta. rewrite Hp. apply bytes_eqb_neq in Hne. rewrite Hne.
  destruct (match dstv with Some (l2, e2) => (l2, e2) | None => ([], None) end) as [dl0 dexp].
  cbn [fst]. unfold put_list at 1. rewrite lookup_put_or_del_other.
  - apply lookup_put_list_nil.
  - apply bytes_eqb_neq. exact Hne.
Qed.
Theorem C06_gone_lmove : forall now d src dst a b sl dl e x,
  lookup now d src = Some e -> e_val e = VList [x] -> src <> dst ->
  typed_or_missing TList now d dst -> side a = Some sl -> side b = Some dl ->
  lookup now (fst (cmd_lmove now d [src; dst; a; b])) src = None.
Proof.
  intros now d src dst a b sl dl e x Hl Hv Hne Hdst Ha Hb. unfold cmd_lmove. rewrite Ha, Hb.
  apply (lmove_core_gone now d src dst sl dl e x); assumption.
Qed.
Theorem C06_gone_rpoplpush : forall now d src dst e x,
  lookup now d src = Some e -> e_val e = VList [x] -> src <> dst ->
  typed_or_missing TList now d dst ->
  lookup now (fst (cmd_rpoplpush now d [src; dst])) src = None.
Proof.
  intros now d src dst e x Hl Hv Hne Hdst. unfold cmd_rpoplpush.
  apply (lmove_core_gone now d src dst false true e x); assumption.
Qed.

(* LMPOP: the first existing key, when count covers its whole list *)
Lemma lmpop_keys_gone now d lft cnt k e l post : forall pre,
  (forall k', In k' pre -> get_list now d k' = Some None) ->
  lookup now d k = Some e -> e_val e = VList l -> Zlen l <= cnt ->
  lookup now (fst (lmpop_keys now d (pre ++ k :: post) lft cnt)) k = None.
Proof.
  intros pre Hpre Hl Hv Hn. induction pre as [|p r IH]; cbn [app lmpop_keys].
  - rewrite (get_list_of_lookup now d k e l Hl Hv).
    pose proof (Zlen_nonneg l) as H0.
    assert (Hm : Z.to_nat (Z.min cnt (Zlen l)) = length l).
    { rewrite Z.min_r by lia. unfold Zlen. apply Nat2Z.id. }
    cbv zeta. rewrite Hm. destruct lft; cbn [fst].
    + rewrite skipn_all. apply lookup_put_list_nil.
    + rewrite Nat.sub_diag. cbn [firstn]. apply lookup_put_list_nil.
  - rewrite (Hpre p (or_introl eq_refl)). apply IH. intros k' Hk. apply Hpre. right. exact Hk.
Qed.
Theorem C06_gone_lmpop : forall now d nk k w lft e x,
  lookup now d k = Some e -> e_val e = VList [x] ->
  parse_i64 nk = Some 1 -> side w = Some lft ->
  lookup now (fst (cmd_lmpop now d [nk; k; w])) k = None.
Proof.
  intros now d nk k w lft e x Hl Hv Hnk Hw. unfold cmd_lmpop. rewrite Hnk.
  change (lookup now (fst (match side w with
                            | Some lft => lmpop_keys now d [k] lft 1
                            | None => (d, argerr) end)) k = None).
  rewrite Hw. apply (lmpop_keys_gone now d lft 1 k e [x] [] []); auto.
  - intros k' [].
  - reflexivity.
Qed.
Theorem C06_gone_lmpop_count : forall now d nk k w c cnt n lft e l,
  lookup now d k = Some e -> e_val e = VList l -> l <> [] ->
  parse_i64 nk = Some 1 -> side w = Some lft -> is_kw c "COUNT" = true ->
  parse_i64 cnt = Some n -> Zlen l <= n ->
  lookup now (fst (cmd_lmpop now d [nk; k; w; c; cnt])) k = None.
Proof.
  intros now d nk k w c cnt n lft e l Hl Hv Hne Hnk Hw Hc Hcnt Hn. unfold cmd_lmpop. rewrite Hnk.
  change (lookup now (fst (match side w, is_kw c "COUNT", parse_i64 cnt with
                            | Some lft, true, Some cnt =>
                              if cnt <? 1 then (d, syntaxerr) else lmpop_keys now d [k] lft cnt
                            | _, _, _ => (d, argerr) end)) k = None).
  rewrite Hw, Hc, Hcnt. pose proof (Zlen_pos l Hne) as Hpos.
  destruct (n <? 1) eqn:E; [apply Z.ltb_lt in E; lia|].
  apply (lmpop_keys_gone now d lft n k e l [] []); auto. intros k' [].
Qed.

(* HDEL key f..., when every field of the hash is listed *)
Lemma amem_in {V} (m : list (bytes * V)) k : amem m k = true -> In k (map fst m).
Proof. unfold amem. destruct (aget m k) eqn:E; [|discriminate]. intros _. exact (aget_some_in m k v E). Qed.
Lemma amem_notin {V} (m : list (bytes * V)) k : amem m k = false -> ~ In k (map fst m).
Proof. unfold amem. destruct (aget m k) eqn:E; [discriminate|]. intros _. exact (aget_none_notin m k E). Qed.

Lemma hdel_fold_spec fs : forall h n h' n',
  fold_left hdel_step fs (h, n) = (h', n') ->
  n <= n' /\ (n' = n -> h' = h) /\
  (forall x, In x (map fst h') <-> In x (map fst h) /\ ~ In x fs).
Proof.
  induction fs as [|f r IH]; intros h n h' n'; cbn [fold_left].
  - intro H. injection H as <- <-. split; [lia|]. split; [reflexivity|]. intro x. cbn [In]. tauto.
  - unfold hdel_step at 2. destruct (amem h f) eqn:E; intro H; apply IH in H; destruct H as [H1 [H2 H3]].
    + split; [lia|]. split; [intro; lia|]. intro x. rewrite H3.
      pose proof (akeys_adel_in h f x) as Hk. unfold akeys in Hk. rewrite Hk. cbn [In].
      split; [intros [[Ha Hb] Hc]; split; [exact Hb|]; intros [Hd|Hd]; [congruence|contradiction]
             | intros [Ha Hb]; split; [split; [intro; apply Hb; left; congruence | exact Ha]
                                      | intro; apply Hb; right; assumption]].
    + split; [exact H1|]. split; [exact H2|]. intro x. rewrite H3. cbn [In].
      apply amem_notin in E.
      split; [intros [Ha Hb]; split; [exact Ha|]; intros [Hd|Hd]; [subst; contradiction|contradiction]
             | intros [Ha Hb]; split; [exact Ha | intro; apply Hb; right; assumption]].
Qed.

Theorem C06_gone_hdel : forall now d k e h f0 fs,
  lookup now d k = Some e -> e_val e = VHash h -> h <> [] ->
  (forall f, In f (map fst h) -> In f (f0 :: fs)) ->
  lookup now (fst (cmd_hdel now d (k :: f0 :: fs))) k = None.
Proof.
  intros now d k e h f0 fs Hl Hv Hne Hall. unfold cmd_hdel.
  rewrite (get_hash_of_lookup now d k e h Hl Hv).
  change (fun (acc : list (bytes * bytes) * Z) f => let '(h, n) := acc in
            if amem h f then (adel h f, n + 1) else (h, n)) with hdel_step.
  destruct (fold_left hdel_step (f0 :: fs) (h, 0)) as [h' n] eqn:Ef.
  destruct (hdel_fold_spec _ _ _ _ _ Ef) as [H1 [H2 H3]].
  assert (Hh : h' = []).
  { destruct h' as [|[x v] r]; [reflexivity|]. exfalso.
    destruct (H3 x) as [Hx _]. destruct (Hx (or_introl eq_refl)) as [Ha Hb]. apply Hb. apply Hall. exact Ha. }
  subst h'. destruct (n =? 0) eqn:En.
  - apply Z.eqb_eq in En. exfalso. apply Hne. symmetry. apply H2. exact En.
  - cbn [fst]. apply lookup_put_hash_nil.
Qed.

(* SREM key m..., when every member of the set is listed *)
Lemma srem_fold_spec ms : forall s n s' n',
  fold_left srem_step ms (s, n) = (s', n') ->
  n <= n' /\ (n' = n -> s' = s) /\ (forall x, In x s' <-> In x s /\ ~ In x ms).
Proof.
  induction ms as [|m r IH]; intros s n s' n'; cbn [fold_left].
  - intro H. injection H as <- <-. split; [lia|]. split; [reflexivity|]. intro x. cbn [In]. tauto.
  - unfold srem_step at 2. destruct (mem_bytes m s) eqn:E; intro H; apply IH in H; destruct H as [H1 [H2 H3]].
    + split; [lia|]. split; [intro; lia|]. intro x. rewrite H3. rewrite in_remove_bytes. cbn [In].
      split; [intros [[Ha Hb] Hc]; split; [exact Hb|]; intros [Hd|Hd]; [congruence|contradiction]
             | intros [Ha Hb]; split; [split; [intro; apply Hb; left; congruence | exact Ha]
                                      | intro; apply Hb; right; assumption]].
    + split; [exact H1|]. split; [exact H2|]. intro x. rewrite H3. cbn [In].
      apply mem_bytes_notin in E.
      split; [intros [Ha Hb]; split; [exact Ha|]; intros [Hd|Hd]; [subst; contradiction|contradiction]
             | intros [Ha Hb]; split; [exact Ha | intro; apply Hb; right; assumption]].
Qed.

Theorem C06_gone_srem : forall now d k e s m0 ms,
  lookup now d k = Some e -> e_val e = VSet s -> s <> [] ->
  (forall x, In x s -> In x (m0 :: ms)) ->
  lookup now (fst (cmd_srem now d (k :: m0 :: ms))) k = None.
Proof.
  intros now d k e s m0 ms Hl Hv Hne Hall. unfold cmd_srem.
  rewrite (get_set_of_lookup now d k e s Hl Hv).
  change (fun (acc : list bytes * Z) m => let '(s, n) := acc in
            if mem_bytes m s then (remove_bytes m s, n + 1) else (s, n)) with srem_step.
  destruct (fold_left srem_step (m0 :: ms) (s, 0)) as [s' n] eqn:Ef.
  destruct (srem_fold_spec _ _ _ _ _ Ef) as [H1 [H2 H3]].
  assert (Hs : s' = []).
  { destruct s' as [|x r]; [reflexivity|]. exfalso.
    destruct (H3 x) as [Hx _]. destruct (Hx (or_introl eq_refl)) as [Ha Hb]. apply Hb. apply Hall. exact Ha. }
  subst s'. destruct (n =? 0) eqn:En.
  - apply Z.eqb_eq in En. exfalso. apply Hne. symmetry. apply H2. exact En.
  - cbn [fst]. apply lookup_put_set_nil.
Qed.

(* SMOVE src dst m: the source, when m was its only member *)
Lemma remove_bytes_all m s : (forall y, In y s -> y = m) -> remove_bytes m s = [].
Proof.
  induction s as [|y r IH]; intro H; cbn [remove_bytes]; [reflexivity|].
  rewrite (H y (or_introl eq_refl)), bytes_eqb_refl. apply IH. intros z Hz. apply H. right. exact Hz.
Qed.
Theorem C06_gone_smove : forall now d src dst m e s,
  lookup now d src = Some e -> e_val e = VSet s -> In m s -> (forall y, In y s -> y = m) ->
  src <> dst -> typed_or_missing TSet now d dst ->
  lookup now (fst (cmd_smove now d [src; dst; m])) src = None.
Proof.
  intros now d src dst m e s Hl Hv Hin Hall Hne Hdst. unfold cmd_smove.
  rewrite (get_set_of_lookup now d src e s Hl Hv).
  destruct (get_set_some now d dst Hdst) as [dcur Hd]. rewrite Hd.
  apply mem_bytes_in in Hin. rewrite Hin. cbn [negb].
  apply bytes_eqb_neq in Hne. rewrite Hne. cbv zeta.
  rewrite (remove_bytes_all m s Hall).
  destruct (match dcur with Some (s2, e2) => (s2, e2) | None => ([], None) end) as [s2 e2].
  cbn [fst]. destruct (mem_bytes m s2).
  - apply lookup_put_set_nil.
  - unfold put_set at 1. rewrite lookup_put_or_del_other.
    + apply lookup_put_set_nil.
    + apply bytes_eqb_neq. exact Hne.
Qed.
Print Assumptions C06_gone_pop.
Print Assumptions C06_gone_pop_count.
Print Assumptions C06_gone_lrem.
Print Assumptions C06_gone_ltrim.
Print Assumptions C06_gone_lmove.
Print Assumptions C06_gone_rpoplpush.
Print Assumptions C06_gone_lmpop.
Print Assumptions C06_gone_lmpop_count.
Print Assumptions C06_gone_hdel.
Print Assumptions C06_gone_srem.
Print Assumptions C06_gone_smove.

(* removing the last element(s) through each removing command, on concrete keyspaces *)
Example C06_gone_ex :
  let d0 := run_cmds 0 empty_db
    [ (s2b "rpush", [s2b "l"; s2b "x"; s2b "x"; s2b "x"]);
      (s2b "rpush", [s2b "m"; s2b "a"; s2b "b"]);
      (s2b "hset", [s2b "h"; s2b "f"; s2b "1"; s2b "g"; s2b "2"]);
      (s2b "sadd", [s2b "s"; s2b "a"]) ] in
  lookup 1 (fst (cmd_lrem 1 d0 [s2b "l"; s2b "-7"; s2b "x"])) (s2b "l") = None /\
  lookup 1 (fst (cmd_ltrim 1 d0 [s2b "m"; s2b "1"; s2b "0"])) (s2b "m") = None /\
  lookup 1 (fst (cmd_pop false 1 d0 [s2b "m"; s2b "5"])) (s2b "m") = None /\
  lookup 1 (fst (cmd_lmpop 1 d0 [s2b "2"; s2b "nokey"; s2b "m"; s2b "RIGHT"; s2b "count"; s2b "2"])) (s2b "m") = None /\
  lookup 1 (fst (cmd_hdel 1 d0 [s2b "h"; s2b "g"; s2b "zz"; s2b "f"])) (s2b "h") = None /\
  lookup 1 (fst (cmd_smove 1 d0 [s2b "s"; s2b "t"; s2b "a"])) (s2b "s") = None /\
  (exists e, lookup 1 (fst (cmd_smove 1 d0 [s2b "s"; s2b "t"; s2b "a"])) (s2b "t") = Some e /\ e_val e = VSet [s2b "a"]).
Proof. vm_compute. repeat split; try reflexivity. eexists. split; reflexivity. Qed.

(* ================================================================== *)
(* 5. RENAME and COPY carry the value and the deadline unchanged        *)
(* ================================================================== *)
Lemma expired_same_exp now v1 v2 x n1 n2 :
  expired now (mkE v1 x n1) = expired now (mkE v2 x n2).
Proof. reflexivity. Qed.

Lemma lookup_put_visible now d0 k e :
  expired now e = false ->
  exists e', lookup now (put d0 k (e_val e) (e_exp e)) k = Some e' /\
             e_val e' = e_val e /\ e_exp e' = e_exp e.
Proof.
  intro Hx. rewrite lookup_put_same. cbv zeta.
  assert (Hx' : expired now (mkE (e_val e) (e_exp e) (d_next d0 + 1)) = false).
  { destruct e as [v ex n]. exact Hx. }
  rewrite Hx'. eexists. split; [reflexivity|]. split; reflexivity.
Qed.

(* RENAME (and RENAMENX when the destination is free): for every value type — the entry e is
   arbitrary — the destination gets the same value and the same deadline, the source is gone,
   all other keys are untouched. *)
Theorem C06_rename : forall nx now d src dst e,
  lookup now d src = Some e -> src <> dst ->
  (nx = false \/ lookup now d dst = None) ->
  let r := cmd_rename nx now d [src; dst] in
  snd r = (if nx then RInt 1 else ok) /\
  lookup now (fst r) src = None /\
  (exists e', lookup now (fst r) dst = Some e' /\ e_val e' = e_val e /\ e_exp e' = e_exp e) /\
  (forall k, k <> src -> k <> dst -> lookup now (fst r) k = lookup now d k).
Proof.
  intros nx now d src dst e Hl Hne Hnx r. subst r. unfold cmd_rename. rewrite Hl.
  assert (Hc : nx && match lookup now d dst with Some _ => true | None => false end = false).
  { destruct Hnx as [->| ->]; [reflexivity | apply andb_false_r]. }
  rewrite Hc. pose proof Hne as Hb. apply bytes_eqb_neq in Hb. rewrite Hb. cbv zeta. cbn [fst snd].
  split; [reflexivity|]. split; [|split].
  - rewrite lookup_put_other by exact Hne. apply lookup_del_same.
  - apply lookup_put_visible. apply (lookup_in now d src e Hl).
  - intros k H1 H2. rewrite lookup_put_other by exact H2. apply lookup_del_other. exact H1.
Qed.
Print Assumptions C06_rename.

(* COPY src dst [REPLACE], with REPLACE or with a free destination *)
Theorem C06_copy : forall now d src dst opts e,
  lookup now d src = Some e -> src <> dst ->
  ((opts = [] /\ lookup now d dst = None) \/ (exists r, opts = [r] /\ is_kw r "REPLACE" = true)) ->
  let r := cmd_copy now d (src :: dst :: opts) in
  snd r = RInt 1 /\
  lookup now (fst r) src = Some e /\
  (exists e', lookup now (fst r) dst = Some e' /\ e_val e' = e_val e /\ e_exp e' = e_exp e) /\
  (forall k, k <> dst -> lookup now (fst r) k = lookup now d k).
Proof.
  intros now d src dst opts e Hl Hne Hopt r. subst r. unfold cmd_copy.
  assert (Hr : exists repl,
     match opts with [] => Some false | [r] => if is_kw r "REPLACE" then Some true else None | _ => None end
       = Some repl /\
     negb repl && match lookup now d dst with Some _ => true | None => false end = false).
  { destruct Hopt as [[-> Hd]|[r [-> Hk]]].
    - exists false. rewrite Hd. split; reflexivity.
    - exists true. rewrite Hk. split; reflexivity. }
  destruct Hr as [repl [Hr1 Hr2]]. cbv zeta. rewrite Hr1, Hl, Hr2. cbn [fst snd].
  split; [reflexivity|]. split; [|split].
  - rewrite lookup_put_other by exact Hne. exact Hl.
  - apply lookup_put_visible. apply (lookup_in now d src e Hl).
  - intros k H1. apply lookup_put_other. exact H1.
Qed.
Print Assumptions C06_copy.

(* THEOREM 5 in one statement (RENAME proper, COPY) *)
Theorem C06_rename_copy : forall now d src dst e, lookup now d src = Some e -> src <> dst ->
  (let d' := fst (cmd_rename false now d [src; dst]) in
   lookup now d' src = None /\
   exists e', lookup now d' dst = Some e' /\ e_val e' = e_val e /\ e_exp e' = e_exp e) /\
  (forall opts,
   (opts = [] /\ lookup now d dst = None) \/ (exists r, opts = [r] /\ is_kw r "REPLACE" = true) ->
   let d' := fst (cmd_copy now d (src :: dst :: opts)) in
   lookup now d' src = Some e /\
   exists e', lookup now d' dst = Some e' /\ e_val e' = e_val e /\ e_exp e' = e_exp e).
Proof.
  intros now d src dst e Hl Hne. split.
  - destruct (C06_rename false now d src dst e Hl Hne (or_introl eq_refl)) as [_ [H1 [H2 _]]].
    split; assumption.
  - intros opts Hopt. destruct (C06_copy now d src dst opts e Hl Hne Hopt) as [_ [H1 [H2 _]]].
    split; assumption.
Qed.
Print Assumptions C06_rename_copy.

(* one key of each type, with a deadline, renamed and copied *)
Example C06_rename_copy_ex :
  let d0 := run_cmds 0 empty_db
    [ (s2b "set", [s2b "a"; s2b "v"; s2b "PX"; s2b "100"]);
      (s2b "rpush", [s2b "b"; s2b "x"; s2b "y"]); (s2b "pexpire", [s2b "b"; s2b "200"]);
      (s2b "hset", [s2b "c"; s2b "f"; s2b "1"]); (s2b "pexpire", [s2b "c"; s2b "300"]);
      (s2b "sadd", [s2b "d"; s2b "m"]) ] in
  let d1 := run_cmds 5 d0
    [ (s2b "rename", [s2b "a"; s2b "a2"]); (s2b "rename", [s2b "b"; s2b "b2"]);
      (s2b "copy", [s2b "c"; s2b "c2"]); (s2b "copy", [s2b "d"; s2b "a2"; s2b "replace"]) ] in
  map (fun k => match lookup 5 d1 (s2b k) with Some e => Some (e_val e, e_exp e) | None => None end)
      ["a"; "b"; "b2"; "c"; "c2"; "d"; "a2"] =
  [ None; None; Some (VList [s2b "x"; s2b "y"], Some (200 * msec));
    Some (VHash [(s2b "f", s2b "1")], Some (300 * msec)); Some (VHash [(s2b "f", s2b "1")], Some (300 * msec));
    Some (VSet [s2b "m"], None); Some (VSet [s2b "m"], None) ].
Proof. vm_compute. reflexivity. Qed.

(* ================================================================== *)
(* 4. A key holds exactly one type                                      *)
(* ================================================================== *)
(* [wt t f]: applied to a visible key k (its first argument) whose value is not of type t,
   f replies an error whatever the other arguments are.  (Which error: an argument error
   detected before the key is looked at, or WRONGTYPE — see C06_wrongtype_exact below for
   commands called with a well-formed argument list.)  By Theorem 1 the db is unchanged. *)
Definition wt (t : vtype) (f : cmd) : Prop :=
  forall now d k e rest, lookup now d k = Some e -> type_of (e_val e) <> t ->
    exists s, snd (f now d (k :: rest)) = RErr s.
Definition wt_opt (f : cmd) (o : option vtype) : Prop :=
  match o with Some t => wt t f | None => True end.

Lemma str_of_wrong e : type_of (e_val e) <> TStr -> str_of e = None.
Proof. unfold str_of. destruct (e_val e); cbn; congruence. Qed.
Lemma str_key_wrong now d k e : lookup now d k = Some e -> type_of (e_val e) <> TStr -> str_key now d k = None.
Proof. intros H Ht. unfold str_key. rewrite H, (str_of_wrong e Ht). reflexivity. Qed.
Lemma get_list_wrong now d k e : lookup now d k = Some e -> type_of (e_val e) <> TList -> get_list now d k = None.
Proof. intros H Ht. unfold get_list, list_of. rewrite H. destruct (e_val e); cbn in *; congruence. Qed.
Lemma get_hash_wrong now d k e : lookup now d k = Some e -> type_of (e_val e) <> THash -> get_hash now d k = None.
Proof. intros H Ht. unfold get_hash, hash_of. rewrite H. destruct (e_val e); cbn in *; congruence. Qed.
Lemma get_set_wrong now d k e : lookup now d k = Some e -> type_of (e_val e) <> TSet -> get_set now d k = None.
Proof. intros H Ht. unfold get_set, set_of. rewrite H. destruct (e_val e); cbn in *; congruence. Qed.

Ltac wt_step :=
  lazymatch goal with
  | |- exists s, snd (_, _) = RErr s => eexists; reflexivity
  | |- exists s, snd (match _ with _ => _ end) = RErr s =>
    match goal with
    | |- exists s, snd ?T = _ =>
      let x := hs T in
      first [ match goal with H : x = _ |- _ => rewrite H end | destruct x ]
    end
  | |- _ => solve [eauto with c06wt]
  end.
Ltac wt_cmd := cbv beta iota zeta; repeat wt_step.

(* set up the facts about the key, then run the stepper *)
Ltac wt_str :=
  let now := fresh "now" in let d := fresh "d" in let k := fresh "k" in let e := fresh "e" in
  let rest := fresh "rest" in let Hl := fresh "Hl" in let Ht := fresh "Ht" in
  intros now d k e rest Hl Ht;
  pose proof (str_of_wrong e Ht) as Hso; pose proof (str_key_wrong now d k e Hl Ht) as Hsk.
Ltac wt_list :=
  let now := fresh "now" in let d := fresh "d" in let k := fresh "k" in let e := fresh "e" in
  let rest := fresh "rest" in let Hl := fresh "Hl" in let Ht := fresh "Ht" in
  intros now d k e rest Hl Ht; pose proof (get_list_wrong now d k e Hl Ht) as Hgl.
Ltac wt_hash :=
  let now := fresh "now" in let d := fresh "d" in let k := fresh "k" in let e := fresh "e" in
  let rest := fresh "rest" in let Hl := fresh "Hl" in let Ht := fresh "Ht" in
  intros now d k e rest Hl Ht; pose proof (get_hash_wrong now d k e Hl Ht) as Hgh.
Ltac wt_set :=
  let now := fresh "now" in let d := fresh "d" in let k := fresh "k" in let e := fresh "e" in
  let rest := fresh "rest" in let Hl := fresh "Hl" in let Ht := fresh "Ht" in
  intros now d k e rest Hl Ht; pose proof (get_set_wrong now d k e Hl Ht) as Hgs.

Lemma incr_core_wt now d k e dl : lookup now d k = Some e -> type_of (e_val e) <> TStr ->
  exists s, snd (incr_core now d k dl) = RErr s.
Proof. intros Hl Ht. pose proof (str_of_wrong e Ht) as Hso. unfold incr_core. wt_cmd. Qed.
Lemma lmove_core_wt now d k e t a b : lookup now d k = Some e -> type_of (e_val e) <> TList ->
  exists s, snd (lmove_core now d k t a b) = RErr s.
Proof. intros Hl Ht. pose proof (get_list_wrong now d k e Hl Ht) as Hgl. unfold lmove_core. wt_cmd. Qed.
#[export] Hint Resolve incr_core_wt lmove_core_wt : c06wt.

(* --- strings --- *)
Lemma cmd_get_wt : wt TStr cmd_get.
Proof. wt_str. unfold cmd_get. wt_cmd. Qed.
Lemma cmd_getset_wt : wt TStr cmd_getset.
Proof.
  wt_str. unfold cmd_getset. destruct rest as [|v [|? ?]]; try (eexists; reflexivity).
  unfold set_core. rewrite Hl, Hso. eexists; reflexivity.
Qed.
Lemma cmd_getdel_wt : wt TStr cmd_getdel.
Proof. wt_str. unfold cmd_getdel. wt_cmd. Qed.
Lemma cmd_getex_wt : wt TStr cmd_getex.
Proof. wt_str. unfold cmd_getex. wt_cmd. Qed.
Lemma cmd_append_wt : wt TStr cmd_append.
Proof. wt_str. unfold cmd_append. wt_cmd. Qed.
Lemma cmd_strlen_wt : wt TStr cmd_strlen.
Proof. wt_str. unfold cmd_strlen. wt_cmd. Qed.
Lemma cmd_getrange_wt : wt TStr cmd_getrange.
Proof. wt_str. unfold cmd_getrange. wt_cmd. Qed.
Lemma cmd_setrange_wt : wt TStr cmd_setrange.
Proof. wt_str. unfold cmd_setrange. wt_cmd. Qed.
Lemma cmd_incr_wt dl : wt TStr (cmd_incr dl).
Proof. wt_str. unfold cmd_incr. wt_cmd. Qed.
Lemma cmd_incrby_wt sg : wt TStr (cmd_incrby sg).
Proof. wt_str. unfold cmd_incrby. wt_cmd. Qed.
Lemma cmd_setbit_wt : wt TStr cmd_setbit.
Proof. wt_str. unfold cmd_setbit. wt_cmd. Qed.
Lemma cmd_getbit_wt : wt TStr cmd_getbit.
Proof. wt_str. unfold cmd_getbit. wt_cmd. Qed.
Lemma cmd_bitcount_wt : wt TStr cmd_bitcount.
Proof. wt_str. unfold cmd_bitcount. wt_cmd. Qed.
Lemma cmd_bitpos_wt : wt TStr cmd_bitpos.
Proof. wt_str. unfold cmd_bitpos. wt_cmd. Qed.

(* --- lists --- *)
Lemma cmd_push_wt a b : wt TList (cmd_push a b).
Proof. wt_list. unfold cmd_push. wt_cmd. Qed.
Lemma cmd_pop_wt a : wt TList (cmd_pop a).
Proof. wt_list. unfold cmd_pop. wt_cmd. Qed.
Lemma cmd_llen_wt : wt TList cmd_llen.
Proof. wt_list. unfold cmd_llen. wt_cmd. Qed.
Lemma cmd_lindex_wt : wt TList cmd_lindex.
Proof. wt_list. unfold cmd_lindex. wt_cmd. Qed.
Lemma cmd_lrange_wt : wt TList cmd_lrange.
Proof. wt_list. unfold cmd_lrange. wt_cmd. Qed.
Lemma cmd_lset_wt : wt TList cmd_lset.
Proof. wt_list. unfold cmd_lset. wt_cmd. Qed.
Lemma cmd_linsert_wt : wt TList cmd_linsert.
Proof. wt_list. unfold cmd_linsert. wt_cmd. Qed.
Lemma cmd_lrem_wt : wt TList cmd_lrem.
Proof. wt_list. unfold cmd_lrem. wt_cmd. Qed.
Lemma cmd_ltrim_wt : wt TList cmd_ltrim.
Proof. wt_list. unfold cmd_ltrim. wt_cmd. Qed.
Lemma cmd_lpos_wt : wt TList cmd_lpos.
Proof. wt_list. unfold cmd_lpos. wt_cmd. Qed.
Lemma cmd_lmove_wt : wt TList cmd_lmove.
Proof. wt_list. unfold cmd_lmove. wt_cmd. Qed.
Lemma cmd_rpoplpush_wt : wt TList cmd_rpoplpush.
Proof. wt_list. unfold cmd_rpoplpush. wt_cmd. Qed.

(* --- hashes --- *)
Lemma cmd_hset_wt m : wt THash (cmd_hset m).
Proof. wt_hash. unfold cmd_hset. wt_cmd. Qed.
Lemma cmd_hget_wt : wt THash cmd_hget.
Proof. wt_hash. unfold cmd_hget. wt_cmd. Qed.
Lemma cmd_hmget_wt : wt THash cmd_hmget.
Proof. wt_hash. unfold cmd_hmget. wt_cmd. Qed.
Lemma cmd_hgetall_wt : wt THash cmd_hgetall.
Proof. wt_hash. unfold cmd_hgetall. wt_cmd. Qed.
Lemma cmd_hkeys_wt b : wt THash (cmd_hkeys b).
Proof. wt_hash. unfold cmd_hkeys. wt_cmd. Qed.
Lemma cmd_hlen_wt : wt THash cmd_hlen.
Proof. wt_hash. unfold cmd_hlen. wt_cmd. Qed.
Lemma cmd_hexists_wt b : wt THash (cmd_hexists b).
Proof. wt_hash. unfold cmd_hexists. wt_cmd. Qed.
Lemma cmd_hdel_wt : wt THash cmd_hdel.
Proof. wt_hash. unfold cmd_hdel. wt_cmd. Qed.
Lemma cmd_hincrby_wt : wt THash cmd_hincrby.
Proof. wt_hash. unfold cmd_hincrby. wt_cmd. Qed.
Lemma cmd_hrandfield_wt : wt THash cmd_hrandfield.
Proof. wt_hash. unfold cmd_hrandfield. wt_cmd. Qed.
Lemma cmd_hscan_wt : wt THash cmd_hscan.
Proof. wt_hash. unfold cmd_hscan. wt_cmd. Qed.

(* --- sets --- *)
Lemma cmd_sadd_wt : wt TSet cmd_sadd.
Proof. wt_set. unfold cmd_sadd. wt_cmd. Qed.
Lemma cmd_srem_wt : wt TSet cmd_srem.
Proof. wt_set. unfold cmd_srem. wt_cmd. Qed.
Lemma cmd_scard_wt : wt TSet cmd_scard.
Proof. wt_set. unfold cmd_scard. wt_cmd. Qed.
Lemma cmd_sismember_wt : wt TSet cmd_sismember.
Proof. wt_set. unfold cmd_sismember. wt_cmd. Qed.
Lemma cmd_smismember_wt : wt TSet cmd_smismember.
Proof. wt_set. unfold cmd_smismember. wt_cmd. Qed.
Lemma cmd_smembers_wt : wt TSet cmd_smembers.
Proof. wt_set. unfold cmd_smembers. wt_cmd. Qed.
Lemma cmd_smove_wt : wt TSet cmd_smove.
Proof. wt_set. unfold cmd_smove. wt_cmd. Qed.
Lemma cmd_srandmember_wt : wt TSet cmd_srandmember.
Proof. wt_set. unfold cmd_srandmember. wt_cmd. Qed.
Lemma cmd_sscan_wt : wt TSet cmd_sscan.
Proof. wt_set. unfold cmd_sscan. wt_cmd. Qed.

Lemma setop_operands_wrong o now d k rest :
  get_set now d k = None -> setop_operands o now d (k :: rest) = None.
Proof.
  intro H. destruct o; cbn [setop_operands set_operands set_operands_until_missing]; rewrite H; reflexivity.
Qed.
Lemma cmd_setop_wt o : wt TSet (cmd_setop o).
Proof.
  wt_set. unfold cmd_setop. cbv beta iota zeta.
  rewrite (setop_operands_wrong o now d k rest Hgs). eexists; reflexivity.
Qed.

(* BITFIELD: every parse failure is an error reply *)
Lemma parse_bf_err : forall fuel args e, parse_bf fuel args = BfErr e -> exists s, e = RErr s.
Proof.
  induction fuel as [|f IH]; intros args e; cbn [parse_bf].
  - intro H. injection H as <-. eexists; reflexivity.
  - cbv zeta. intro H.
    repeat (lazymatch type of H with
            | BfErr _ = BfErr _ => fail
            | BfOk _ = BfErr _ => fail
            | match parse_bf f ?r with _ => _ end = _ =>
              let E := fresh "E" in destruct (parse_bf f r) eqn:E
            | match _ with _ => _ end = _ =>
              match type of H with ?T = _ => let x := hs T in destruct x end
            end);
    try discriminate H;
    try (injection H as <-; first [ eexists; reflexivity | eapply IH; eassumption ]).
Qed.
Lemma cmd_bitfield_wt ro : wt TStr (cmd_bitfield ro).
Proof.
  wt_str. unfold cmd_bitfield. cbv beta iota zeta.
  destruct (parse_bf (S (length rest)) rest) as [ops|r] eqn:E.
  - destruct (ro && existsb (fun op => match op with BGet _ _ _ => false | _ => true end) ops);
      [eexists; reflexivity|]. rewrite Hsk. eexists; reflexivity.
  - cbn [snd]. destruct (parse_bf_err _ _ _ E) as [s ->]. eexists; reflexivity.
Qed.

(* LCS: both operands must be strings; [expects] speaks about the first one *)
Lemma lcs_operand_wrong now d k e : lookup now d k = Some e -> type_of (e_val e) <> TStr ->
  lcs_operand now d k = None.
Proof. intros H Ht. unfold lcs_operand. rewrite H. exact (str_of_wrong e Ht). Qed.
Lemma cmd_lcs_wt : wt TStr cmd_lcs.
Proof.
  wt_str. pose proof (lcs_operand_wrong now d k e Hl Ht) as Hlo. unfold cmd_lcs. wt_cmd.
Qed.
Lemma cmd_incrbyfloat_wt : wt TStr cmd_incrbyfloat.
Proof. wt_str. unfold cmd_incrbyfloat. wt_cmd. Qed.
Lemma cmd_hincrbyfloat_wt : wt THash cmd_hincrbyfloat.
Proof. wt_hash. unfold cmd_hincrbyfloat. wt_cmd. Qed.

Lemma table_wt : Forall (fun x : cmd * option vtype => wt_opt (fst x) (snd x)) table.
Proof.
  unfold table.
  apply Forall_cons. exact I.
  apply Forall_cons. exact I.
  apply Forall_cons. exact I.
  apply Forall_cons. exact I.
  apply Forall_cons. exact (cmd_get_wt).
  apply Forall_cons. exact (cmd_getset_wt).
  apply Forall_cons. exact (cmd_getdel_wt).
  apply Forall_cons. exact (cmd_getex_wt).
  apply Forall_cons. exact (cmd_append_wt).
  apply Forall_cons. exact (cmd_strlen_wt).
  apply Forall_cons. exact (cmd_getrange_wt).
  apply Forall_cons. exact (cmd_getrange_wt).
  apply Forall_cons. exact (cmd_setrange_wt).
  apply Forall_cons. exact (cmd_incr_wt 1).
  apply Forall_cons. exact (cmd_incr_wt (-1)).
  apply Forall_cons. exact (cmd_incrby_wt 1).
  apply Forall_cons. exact (cmd_incrby_wt (-1)).
  apply Forall_cons. exact I.
  apply Forall_cons. exact I.
  apply Forall_cons. exact I.
  apply Forall_cons. exact (cmd_push_wt true false).
  apply Forall_cons. exact (cmd_push_wt false false).
  apply Forall_cons. exact (cmd_push_wt true true).
  apply Forall_cons. exact (cmd_push_wt false true).
  apply Forall_cons. exact (cmd_pop_wt true).
  apply Forall_cons. exact (cmd_pop_wt false).
  apply Forall_cons. exact (cmd_llen_wt).
  apply Forall_cons. exact (cmd_lindex_wt).
  apply Forall_cons. exact (cmd_lrange_wt).
  apply Forall_cons. exact (cmd_lset_wt).
  apply Forall_cons. exact (cmd_linsert_wt).
  apply Forall_cons. exact (cmd_lrem_wt).
  apply Forall_cons. exact (cmd_ltrim_wt).
  apply Forall_cons. exact (cmd_lpos_wt).
  apply Forall_cons. exact (cmd_lmove_wt).
  apply Forall_cons. exact (cmd_rpoplpush_wt).
  apply Forall_cons. exact I.
  apply Forall_cons. exact (cmd_hset_wt 0).
  apply Forall_cons. exact (cmd_hset_wt 1).
  apply Forall_cons. exact (cmd_hset_wt 2).
  apply Forall_cons. exact (cmd_hget_wt).
  apply Forall_cons. exact (cmd_hmget_wt).
  apply Forall_cons. exact (cmd_hgetall_wt).
  apply Forall_cons. exact (cmd_hkeys_wt false).
  apply Forall_cons. exact (cmd_hkeys_wt true).
  apply Forall_cons. exact (cmd_hlen_wt).
  apply Forall_cons. exact (cmd_hexists_wt false).
  apply Forall_cons. exact (cmd_hexists_wt true).
  apply Forall_cons. exact (cmd_hdel_wt).
  apply Forall_cons. exact (cmd_hincrby_wt).
  apply Forall_cons. exact (cmd_hrandfield_wt).
  apply Forall_cons. exact (cmd_hscan_wt).
  apply Forall_cons. exact (cmd_sadd_wt).
  apply Forall_cons. exact (cmd_srem_wt).
  apply Forall_cons. exact (cmd_scard_wt).
  apply Forall_cons. exact (cmd_sismember_wt).
  apply Forall_cons. exact (cmd_smismember_wt).
  apply Forall_cons. exact (cmd_smembers_wt).
  apply Forall_cons. exact (cmd_smove_wt).
  apply Forall_cons. exact (cmd_srandmember_wt).
  apply Forall_cons. exact (cmd_sscan_wt).
  apply Forall_cons. exact (cmd_setop_wt OpInter).
  apply Forall_cons. exact (cmd_setop_wt OpUnion).
  apply Forall_cons. exact (cmd_setop_wt OpDiff).
  apply Forall_cons. exact I.
  apply Forall_cons. exact I.
  apply Forall_cons. exact I.
  apply Forall_cons. exact I.
  apply Forall_cons. exact I.
  apply Forall_cons. exact I.
  apply Forall_cons. exact I.
  apply Forall_cons. exact I.
  apply Forall_cons. exact I.
  apply Forall_cons. exact I.
  apply Forall_cons. exact I.
  apply Forall_cons. exact I.
  apply Forall_cons. exact I.
  apply Forall_cons. exact I.
  apply Forall_cons. exact I.
  apply Forall_cons. exact I.
  apply Forall_cons. exact I.
  apply Forall_cons. exact I.
  apply Forall_cons. exact I.
  apply Forall_cons. exact I.
  apply Forall_cons. exact I.
  apply Forall_cons. exact I.
  apply Forall_cons. exact I.
  apply Forall_cons. exact I.
  apply Forall_cons. exact I.
  apply Forall_cons. exact (cmd_setbit_wt).
  apply Forall_cons. exact (cmd_getbit_wt).
  apply Forall_cons. exact (cmd_bitcount_wt).
  apply Forall_cons. exact (cmd_bitpos_wt).
  apply Forall_cons. exact I.
  apply Forall_cons. exact (cmd_bitfield_wt false).
  apply Forall_cons. exact (cmd_bitfield_wt true).
  apply Forall_cons. exact (cmd_lcs_wt).
  apply Forall_cons. exact I.
  apply Forall_cons. exact (cmd_incrbyfloat_wt).
  apply Forall_cons. exact (cmd_hincrbyfloat_wt).
  apply Forall_nil.
Qed.

(* THEOREM 4.  For every command of the table that takes the key it operates on as first
   argument and requires one type ([expects name = Some t]): on a visible key holding a value
   of ANOTHER type the command replies an error — whatever its other arguments — and the
   database is unchanged.
   Excluded on purpose ([expects] = None):
   - SET, SETEX, PSETEX, MSET: as in Redis they overwrite a key of any type (SET ... GET and
     GETSET do check the type: see C06_set_get_wrongtype and the entry "getset");
   - SETNX, MSETNX, MGET, the keyspace/expiry commands (DEL, EXISTS, TYPE, RENAME, COPY, EXPIRE,
     TTL, ...): they accept every type by design;
   - LMPOP, SINTERCARD (first argument is numkeys), BITOP (operation name),
     S*STORE (first argument is the destination, which is overwritten);
   - SORT: its source may be a list OR a set, which [expects] cannot say; it is covered by the
     general classification [accepts] and C06_wrongtype_multi / _multi_exact below.
   LCS ([Some TStr]: the first operand; the second is checked the same way, see the example),
   INCRBYFLOAT ([Some TStr]) and HINCRBYFLOAT ([Some THash]) are covered here. *)
Theorem C06_wrongtype : forall name f t now d k e rest,
  data_cmd name = Some f -> expects name = Some t ->
  lookup now d k = Some e -> type_of (e_val e) <> t ->
  (exists s, snd (f now d (k :: rest)) = RErr s) /\ fst (f now d (k :: rest)) = d.
Proof.
  intros name f t now d k e rest Hf Hex Hl Ht.
  pose proof (table_sound wt_opt table_wt name f Hf) as Hw. rewrite Hex in Hw. cbn [wt_opt] in Hw.
  destruct (Hw now d k e rest Hl Ht) as [s Hs].
  split; [exists s; exact Hs | exact (C06_failed_inert name f now d (k :: rest) s Hf Hs)].
Qed.
Print Assumptions C06_wrongtype.

(* ---- which error: WRONGTYPE, unless the argument list itself is rejected ---- *)
(* [wtx t f]: on a visible key of another type the reply is exactly WRONGTYPE, or it is an
   error that this very argument list receives on EVERY database (i.e. it was produced before
   the key was looked at: arity, syntax, number format, range of an argument). *)
Definition wtx (t : vtype) (f : cmd) : Prop :=
  forall now d k e rest, lookup now d k = Some e -> type_of (e_val e) <> t ->
    snd (f now d (k :: rest)) = wrongtype \/
    (exists s, forall d', snd (f now d' (k :: rest)) = RErr s).
Definition wtx_opt (f : cmd) (o : option vtype) : Prop :=
  match o with Some t => wtx t f | None => True end.

Ltac wtx_step :=
  lazymatch goal with
  | |- snd (_, wrongtype) = wrongtype \/ _ => left; reflexivity
  | |- snd (_, _) = wrongtype \/ _ => right; eexists; intro; reflexivity
  | |- snd (match _ with _ => _ end) = wrongtype \/ _ =>
    match goal with
    | |- snd ?T = _ \/ _ =>
      let x := hs T in
      first [ match goal with H : x = _ |- _ => rewrite H end | destruct x ]
    end
  | |- _ => solve [left; eauto with c06wtx]
  end.
Ltac wtx_cmd := cbv beta iota zeta; repeat wtx_step.

Lemma incr_core_wtx now d k e dl : lookup now d k = Some e -> type_of (e_val e) <> TStr ->
  snd (incr_core now d k dl) = wrongtype.
Proof. intros Hl Ht. unfold incr_core. rewrite Hl, (str_of_wrong e Ht). reflexivity. Qed.
Lemma lmove_core_wtx now d k e t a b : lookup now d k = Some e -> type_of (e_val e) <> TList ->
  snd (lmove_core now d k t a b) = wrongtype.
Proof. intros Hl Ht. unfold lmove_core. rewrite (get_list_wrong now d k e Hl Ht). reflexivity. Qed.
#[export] Hint Resolve incr_core_wtx lmove_core_wtx : c06wtx.

Lemma cmd_get_wtx : wtx TStr cmd_get.
Proof. wt_str. unfold cmd_get. wtx_cmd. Qed.
Lemma cmd_getset_wtx : wtx TStr cmd_getset.
Proof.
  wt_str. unfold cmd_getset. destruct rest as [|v [|? ?]]; try (right; eexists; intro; reflexivity).
  left. unfold set_core. rewrite Hl, Hso. reflexivity.
Qed.
Lemma cmd_getdel_wtx : wtx TStr cmd_getdel.
Proof. wt_str. unfold cmd_getdel. wtx_cmd. Qed.
Lemma cmd_getex_wtx : wtx TStr cmd_getex.
Proof. wt_str. unfold cmd_getex. wtx_cmd. Qed.
Lemma cmd_append_wtx : wtx TStr cmd_append.
Proof. wt_str. unfold cmd_append. wtx_cmd. Qed.
Lemma cmd_strlen_wtx : wtx TStr cmd_strlen.
Proof. wt_str. unfold cmd_strlen. wtx_cmd. Qed.
Lemma cmd_getrange_wtx : wtx TStr cmd_getrange.
Proof. wt_str. unfold cmd_getrange. wtx_cmd. Qed.
Lemma cmd_setrange_wtx : wtx TStr cmd_setrange.
Proof. wt_str. unfold cmd_setrange. wtx_cmd. Qed.
Lemma cmd_incr_wtx dl : wtx TStr (cmd_incr dl).
Proof. wt_str. unfold cmd_incr. wtx_cmd. Qed.
Lemma cmd_incrby_wtx sg : wtx TStr (cmd_incrby sg).
Proof. wt_str. unfold cmd_incrby. wtx_cmd. Qed.
Lemma cmd_setbit_wtx : wtx TStr cmd_setbit.
Proof. wt_str. unfold cmd_setbit. wtx_cmd. Qed.
Lemma cmd_getbit_wtx : wtx TStr cmd_getbit.
Proof. wt_str. unfold cmd_getbit. wtx_cmd. Qed.
Lemma cmd_bitcount_wtx : wtx TStr cmd_bitcount.
Proof. wt_str. unfold cmd_bitcount. wtx_cmd. Qed.
Lemma cmd_bitpos_wtx : wtx TStr cmd_bitpos.
Proof. wt_str. unfold cmd_bitpos. wtx_cmd. Qed.
Lemma cmd_bitfield_wtx ro : wtx TStr (cmd_bitfield ro).
Proof.
  wt_str. unfold cmd_bitfield. cbv beta iota zeta.
  destruct (parse_bf (S (length rest)) rest) as [ops|r] eqn:E.
  - destruct (ro && existsb (fun op => match op with BGet _ _ _ => false | _ => true end) ops);
      [right; eexists; intro; reflexivity|]. rewrite Hsk. left; reflexivity.
  - right. destruct (parse_bf_err _ _ _ E) as [s ->]. exists s. intro. reflexivity.
Qed.

Lemma cmd_push_wtx a b : wtx TList (cmd_push a b).
Proof. wt_list. unfold cmd_push. wtx_cmd. Qed.
Lemma cmd_pop_wtx a : wtx TList (cmd_pop a).
Proof. wt_list. unfold cmd_pop. wtx_cmd. Qed.
Lemma cmd_llen_wtx : wtx TList cmd_llen.
Proof. wt_list. unfold cmd_llen. wtx_cmd. Qed.
Lemma cmd_lindex_wtx : wtx TList cmd_lindex.
Proof. wt_list. unfold cmd_lindex. wtx_cmd. Qed.
Lemma cmd_lrange_wtx : wtx TList cmd_lrange.
Proof. wt_list. unfold cmd_lrange. wtx_cmd. Qed.
Lemma cmd_lset_wtx : wtx TList cmd_lset.
Proof. wt_list. unfold cmd_lset. wtx_cmd. Qed.
Lemma cmd_linsert_wtx : wtx TList cmd_linsert.
Proof. wt_list. unfold cmd_linsert. wtx_cmd. Qed.
Lemma cmd_lrem_wtx : wtx TList cmd_lrem.
Proof. wt_list. unfold cmd_lrem. wtx_cmd. Qed.
Lemma cmd_ltrim_wtx : wtx TList cmd_ltrim.
Proof. wt_list. unfold cmd_ltrim. wtx_cmd. Qed.
Lemma cmd_lpos_wtx : wtx TList cmd_lpos.
Proof. wt_list. unfold cmd_lpos. wtx_cmd. Qed.
Lemma cmd_lmove_wtx : wtx TList cmd_lmove.
Proof. wt_list. unfold cmd_lmove. wtx_cmd. Qed.
Lemma cmd_rpoplpush_wtx : wtx TList cmd_rpoplpush.
Proof. wt_list. unfold cmd_rpoplpush. wtx_cmd. Qed.

Lemma cmd_hset_wtx m : wtx THash (cmd_hset m).
Proof. wt_hash. unfold cmd_hset. wtx_cmd. Qed.
Lemma cmd_hget_wtx : wtx THash cmd_hget.
Proof. wt_hash. unfold cmd_hget. wtx_cmd. Qed.
Lemma cmd_hmget_wtx : wtx THash cmd_hmget.
Proof. wt_hash. unfold cmd_hmget. wtx_cmd. Qed.
Lemma cmd_hgetall_wtx : wtx THash cmd_hgetall.
Proof. wt_hash. unfold cmd_hgetall. wtx_cmd. Qed.
Lemma cmd_hkeys_wtx b : wtx THash (cmd_hkeys b).
Proof. wt_hash. unfold cmd_hkeys. wtx_cmd. Qed.
Lemma cmd_hlen_wtx : wtx THash cmd_hlen.
Proof. wt_hash. unfold cmd_hlen. wtx_cmd. Qed.
Lemma cmd_hexists_wtx b : wtx THash (cmd_hexists b).
Proof. wt_hash. unfold cmd_hexists. wtx_cmd. Qed.
Lemma cmd_hdel_wtx : wtx THash cmd_hdel.
Proof. wt_hash. unfold cmd_hdel. wtx_cmd. Qed.
Lemma cmd_hincrby_wtx : wtx THash cmd_hincrby.
Proof. wt_hash. unfold cmd_hincrby. wtx_cmd. Qed.
Lemma cmd_hrandfield_wtx : wtx THash cmd_hrandfield.
Proof. wt_hash. unfold cmd_hrandfield. wtx_cmd. Qed.
Lemma cmd_hscan_wtx : wtx THash cmd_hscan.
Proof. wt_hash. unfold cmd_hscan. wtx_cmd. Qed.

Lemma cmd_sadd_wtx : wtx TSet cmd_sadd.
Proof. wt_set. unfold cmd_sadd. wtx_cmd. Qed.
Lemma cmd_srem_wtx : wtx TSet cmd_srem.
Proof. wt_set. unfold cmd_srem. wtx_cmd. Qed.
Lemma cmd_scard_wtx : wtx TSet cmd_scard.
Proof. wt_set. unfold cmd_scard. wtx_cmd. Qed.
Lemma cmd_sismember_wtx : wtx TSet cmd_sismember.
Proof. wt_set. unfold cmd_sismember. wtx_cmd. Qed.
Lemma cmd_smismember_wtx : wtx TSet cmd_smismember.
Proof. wt_set. unfold cmd_smismember. wtx_cmd. Qed.
Lemma cmd_smembers_wtx : wtx TSet cmd_smembers.
Proof. wt_set. unfold cmd_smembers. wtx_cmd. Qed.
Lemma cmd_smove_wtx : wtx TSet cmd_smove.
Proof. wt_set. unfold cmd_smove. wtx_cmd. Qed.
Lemma cmd_srandmember_wtx : wtx TSet cmd_srandmember.
Proof. wt_set. unfold cmd_srandmember. wtx_cmd. Qed.
Lemma cmd_sscan_wtx : wtx TSet cmd_sscan.
Proof. wt_set. unfold cmd_sscan. wtx_cmd. Qed.
Lemma cmd_setop_wtx o : wtx TSet (cmd_setop o).
Proof.
  wt_set. left. unfold cmd_setop. cbv beta iota zeta.
  rewrite (setop_operands_wrong o now d k rest Hgs). reflexivity.
Qed.

Lemma cmd_lcs_wtx : wtx TStr cmd_lcs.
Proof.
  wt_str. pose proof (lcs_operand_wrong now d k e Hl Ht) as Hlo. unfold cmd_lcs. wtx_cmd.
Qed.
Lemma cmd_incrbyfloat_wtx : wtx TStr cmd_incrbyfloat.
Proof. wt_str. unfold cmd_incrbyfloat. wtx_cmd. Qed.
Lemma cmd_hincrbyfloat_wtx : wtx THash cmd_hincrbyfloat.
Proof. wt_hash. unfold cmd_hincrbyfloat. wtx_cmd. Qed.

Lemma table_wtx : Forall (fun x : cmd * option vtype => wtx_opt (fst x) (snd x)) table.
Proof.
  unfold table.
  apply Forall_cons. exact I.
  apply Forall_cons. exact I.
  apply Forall_cons. exact I.
  apply Forall_cons. exact I.
  apply Forall_cons. exact (cmd_get_wtx).
  apply Forall_cons. exact (cmd_getset_wtx).
  apply Forall_cons. exact (cmd_getdel_wtx).
  apply Forall_cons. exact (cmd_getex_wtx).
  apply Forall_cons. exact (cmd_append_wtx).
  apply Forall_cons. exact (cmd_strlen_wtx).
  apply Forall_cons. exact (cmd_getrange_wtx).
  apply Forall_cons. exact (cmd_getrange_wtx).
  apply Forall_cons. exact (cmd_setrange_wtx).
  apply Forall_cons. exact (cmd_incr_wtx 1).
  apply Forall_cons. exact (cmd_incr_wtx (-1)).
  apply Forall_cons. exact (cmd_incrby_wtx 1).
  apply Forall_cons. exact (cmd_incrby_wtx (-1)).
  apply Forall_cons. exact I.
  apply Forall_cons. exact I.
  apply Forall_cons. exact I.
  apply Forall_cons. exact (cmd_push_wtx true false).
  apply Forall_cons. exact (cmd_push_wtx false false).
  apply Forall_cons. exact (cmd_push_wtx true true).
  apply Forall_cons. exact (cmd_push_wtx false true).
  apply Forall_cons. exact (cmd_pop_wtx true).
  apply Forall_cons. exact (cmd_pop_wtx false).
  apply Forall_cons. exact (cmd_llen_wtx).
  apply Forall_cons. exact (cmd_lindex_wtx).
  apply Forall_cons. exact (cmd_lrange_wtx).
  apply Forall_cons. exact (cmd_lset_wtx).
  apply Forall_cons. exact (cmd_linsert_wtx).
  apply Forall_cons. exact (cmd_lrem_wtx).
  apply Forall_cons. exact (cmd_ltrim_wtx).
  apply Forall_cons. exact (cmd_lpos_wtx).
  apply Forall_cons. exact (cmd_lmove_wtx).
  apply Forall_cons. exact (cmd_rpoplpush_wtx).
  apply Forall_cons. exact I.
  apply Forall_cons. exact (cmd_hset_wtx 0).
  apply Forall_cons. exact (cmd_hset_wtx 1).
  apply Forall_cons. exact (cmd_hset_wtx 2).
  apply Forall_cons. exact (cmd_hget_wtx).
  apply Forall_cons. exact (cmd_hmget_wtx).
  apply Forall_cons. exact (cmd_hgetall_wtx).
  apply Forall_cons. exact (cmd_hkeys_wtx false).
  apply Forall_cons. exact (cmd_hkeys_wtx true).
  apply Forall_cons. exact (cmd_hlen_wtx).
  apply Forall_cons. exact (cmd_hexists_wtx false).
  apply Forall_cons. exact (cmd_hexists_wtx true).
  apply Forall_cons. exact (cmd_hdel_wtx).
  apply Forall_cons. exact (cmd_hincrby_wtx).
  apply Forall_cons. exact (cmd_hrandfield_wtx).
  apply Forall_cons. exact (cmd_hscan_wtx).
  apply Forall_cons. exact (cmd_sadd_wtx).
  apply Forall_cons. exact (cmd_srem_wtx).
  apply Forall_cons. exact (cmd_scard_wtx).
  apply Forall_cons. exact (cmd_sismember_wtx).
  apply Forall_cons. exact (cmd_smismember_wtx).
  apply Forall_cons. exact (cmd_smembers_wtx).
  apply Forall_cons. exact (cmd_smove_wtx).
  apply Forall_cons. exact (cmd_srandmember_wtx).
  apply Forall_cons. exact (cmd_sscan_wtx).
  apply Forall_cons. exact (cmd_setop_wtx OpInter).
  apply Forall_cons. exact (cmd_setop_wtx OpUnion).
  apply Forall_cons. exact (cmd_setop_wtx OpDiff).
  apply Forall_cons. exact I.
  apply Forall_cons. exact I.
  apply Forall_cons. exact I.
  apply Forall_cons. exact I.
  apply Forall_cons. exact I.
  apply Forall_cons. exact I.
  apply Forall_cons. exact I.
  apply Forall_cons. exact I.
  apply Forall_cons. exact I.
  apply Forall_cons. exact I.
  apply Forall_cons. exact I.
  apply Forall_cons. exact I.
  apply Forall_cons. exact I.
  apply Forall_cons. exact I.
  apply Forall_cons. exact I.
  apply Forall_cons. exact I.
  apply Forall_cons. exact I.
  apply Forall_cons. exact I.
  apply Forall_cons. exact I.
  apply Forall_cons. exact I.
  apply Forall_cons. exact I.
  apply Forall_cons. exact I.
  apply Forall_cons. exact I.
  apply Forall_cons. exact I.
  apply Forall_cons. exact I.
  apply Forall_cons. exact (cmd_setbit_wtx).
  apply Forall_cons. exact (cmd_getbit_wtx).
  apply Forall_cons. exact (cmd_bitcount_wtx).
  apply Forall_cons. exact (cmd_bitpos_wtx).
  apply Forall_cons. exact I.
  apply Forall_cons. exact (cmd_bitfield_wtx false).
  apply Forall_cons. exact (cmd_bitfield_wtx true).
  apply Forall_cons. exact (cmd_lcs_wtx).
  apply Forall_cons. exact I.
  apply Forall_cons. exact (cmd_incrbyfloat_wtx).
  apply Forall_cons. exact (cmd_hincrbyfloat_wtx).
  apply Forall_nil.
Qed.

(* THEOREM 4, exact form. *)
Theorem C06_wrongtype_exact : forall name f t now d k e rest,
  data_cmd name = Some f -> expects name = Some t ->
  lookup now d k = Some e -> type_of (e_val e) <> t ->
  (snd (f now d (k :: rest)) = wrongtype \/
   (exists s, forall d', snd (f now d' (k :: rest)) = RErr s)) /\
  fst (f now d (k :: rest)) = d.
Proof.
  intros name f t now d k e rest Hf Hex Hl Ht.
  pose proof (table_sound wtx_opt table_wtx name f Hf) as Hw. rewrite Hex in Hw. cbn [wtx_opt] in Hw.
  destruct (Hw now d k e rest Hl Ht) as [Hs|[s Hs]].
  - split; [left; exact Hs|]. exact (C06_failed_inert name f now d (k :: rest) _ Hf Hs).
  - split; [right; exists s; exact Hs|]. exact (C06_failed_inert name f now d (k :: rest) s Hf (Hs d)).
Qed.
Print Assumptions C06_wrongtype_exact.

(* ---- commands that accept more than one type: SORT (list or set) ---- *)
(* [expects] names ONE required type, which cannot describe SORT: its source key may be a list
   or a set, and a string or hash source is refused.  [accepts] is the general classification:
   the set of types a command accepts for the key given as its first argument.  It agrees with
   [expects] on every single-type command and adds the entry for "sort". *)
Definition accepts (name : bytes) : option (list vtype) :=
  match expects name with
  | Some t => Some [t]
  | None => if bytes_eqb name (s2b "sort") then Some [TList; TSet] else None
  end.

Lemma sort_source_wrong now d k e : lookup now d k = Some e ->
  ~ In (type_of (e_val e)) [TList; TSet] -> sort_source now d k = SrcWrong.
Proof.
  intros H Ht. unfold sort_source. rewrite H.
  destruct (e_val e); cbn [type_of In] in Ht; try reflexivity; exfalso; apply Ht; auto.
Qed.

Lemma cmd_sort_wtx : forall now d k e rest, lookup now d k = Some e ->
  ~ In (type_of (e_val e)) [TList; TSet] ->
  snd (cmd_sort now d (k :: rest)) = wrongtype \/
  (exists s, forall d', snd (cmd_sort now d' (k :: rest)) = RErr s).
Proof.
  intros now d k e rest Hl Ht. unfold cmd_sort.
  destruct (scan_sort rest st0) as [o| |].
  - left. cbv zeta. rewrite (sort_source_wrong now d k e Hl Ht). reflexivity.
  - right. eexists. intro d'. reflexivity.
  - right. eexists. intro d'. reflexivity.
Qed.

(* by conversion (lazy): [vm_compute] would normalise the body of [cmd_sort] *)
Lemma data_cmd_sort : data_cmd (s2b "sort") = Some cmd_sort.
Proof. reflexivity. Qed.

(* THEOREM 4 for every typed command of the table, SORT included: a visible first key whose type
   is not one of the accepted ones gives WRONGTYPE (or an error of the argument list that does
   not depend on the db), and nothing changes.  For [accepts name = Some [t]] this is exactly
   C06_wrongtype_exact. *)
Theorem C06_wrongtype_multi_exact : forall name f ts now d k e rest,
  data_cmd name = Some f -> accepts name = Some ts ->
  lookup now d k = Some e -> ~ In (type_of (e_val e)) ts ->
  (snd (f now d (k :: rest)) = wrongtype \/
   (exists s, forall d', snd (f now d' (k :: rest)) = RErr s)) /\
  fst (f now d (k :: rest)) = d.
Proof.
  intros name f ts now d k e rest Hf Ha Hl Ht. unfold accepts in Ha.
  destruct (expects name) as [t|] eqn:Hex.
  - injection Ha as <-. apply (C06_wrongtype_exact name f t now d k e rest Hf Hex Hl).
    intro Heq. apply Ht. left. symmetry. exact Heq.
  - destruct (bytes_eqb name (s2b "sort")) eqn:Hn; [|discriminate Ha]. injection Ha as <-.
    apply bytes_eqb_eq in Hn. subst name. rewrite data_cmd_sort in Hf. injection Hf as <-.
    destruct (cmd_sort_wtx now d k e rest Hl Ht) as [Hs|[s Hs]].
    + split; [left; exact Hs|].
      exact (C06_failed_inert _ _ now d (k :: rest) _ data_cmd_sort Hs).
    + split; [right; exists s; exact Hs|].
      exact (C06_failed_inert _ _ now d (k :: rest) s data_cmd_sort (Hs d)).
Qed.
Print Assumptions C06_wrongtype_multi_exact.

Theorem C06_wrongtype_multi : forall name f ts now d k e rest,
  data_cmd name = Some f -> accepts name = Some ts ->
  lookup now d k = Some e -> ~ In (type_of (e_val e)) ts ->
  (exists s, snd (f now d (k :: rest)) = RErr s) /\ fst (f now d (k :: rest)) = d.
Proof.
  intros name f ts now d k e rest Hf Ha Hl Ht.
  destruct (C06_wrongtype_multi_exact name f ts now d k e rest Hf Ha Hl Ht) as [[Hs|[s Hs]] Hd].
  - split; [|exact Hd]. eexists. exact Hs.
  - split; [|exact Hd]. exists s. exact (Hs d).
Qed.
Print Assumptions C06_wrongtype_multi.

(* SORT on a string and on a hash: WRONGTYPE, same db; on a list and on a set it answers;
   LCS on a list operand (first or second): WRONGTYPE *)
Example C06_wrongtype_sort_lcs_ex :
  let d := run_cmds 0 empty_db
    [ (s2b "rpush", [s2b "l"; s2b "3"; s2b "1"; s2b "2"]); (s2b "set", [s2b "s"; s2b "v"]);
      (s2b "hset", [s2b "h"; s2b "f"; s2b "v"]); (s2b "sadd", [s2b "t"; s2b "7"]) ] in
  accepts (s2b "sort") = Some [TList; TSet] /\ accepts (s2b "lcs") = Some [TStr] /\
  accepts (s2b "hget") = Some [THash] /\ accepts (s2b "set") = None /\
  cmd_sort 1 d [s2b "s"] = (d, wrongtype) /\
  cmd_sort 1 d [s2b "h"; s2b "STORE"; s2b "x"] = (d, wrongtype) /\
  cmd_sort 1 d [s2b "l"] = (d, RArr [RBulk (s2b "1"); RBulk (s2b "2"); RBulk (s2b "3")]) /\
  cmd_sort 1 d [s2b "t"] = (d, RArr [RBulk (s2b "7")]) /\
  cmd_lcs 1 d [s2b "l"; s2b "s"] = (d, wrongtype) /\
  cmd_lcs 1 d [s2b "s"; s2b "l"] = (d, wrongtype) /\
  cmd_lcs 1 d [s2b "s"; s2b "s"] = (d, RBulk (s2b "v")).
Proof. vm_compute. repeat split; reflexivity. Qed.

(* SET ... GET is the typed form of SET: on a non-string key it fails with WRONGTYPE and,
   by Theorem 1, writes nothing; plain SET is the one overwrite allowed. *)
Theorem C06_set_get_wrongtype : forall now d k v o e,
  lookup now d k = Some e -> type_of (e_val e) <> TStr -> so_get o = true ->
  set_core now d k v o = (d, wrongtype).
Proof.
  intros now d k v o e Hl Ht Hg. unfold set_core. rewrite Hl, (str_of_wrong e Ht), Hg. reflexivity.
Qed.
Print Assumptions C06_set_get_wrongtype.

Example C06_wrongtype_ex :
  let d := run_cmds 0 empty_db [ (s2b "rpush", [s2b "l"; s2b "x"]); (s2b "set", [s2b "s"; s2b "v"]) ] in
  expects (s2b "hset") = Some THash /\ expects (s2b "lpush") = Some TList /\
  expects (s2b "incr") = Some TStr /\ expects (s2b "sadd") = Some TSet /\ expects (s2b "set") = None /\
  (exists e, lookup 1 d (s2b "l") = Some e /\ type_of (e_val e) <> THash) /\
  cmd_hset 0 1 d [s2b "l"; s2b "f"; s2b "v"] = (d, wrongtype) /\
  cmd_incr 1 1 d [s2b "l"] = (d, wrongtype) /\
  cmd_sadd 1 d [s2b "s"; s2b "m"] = (d, wrongtype) /\
  cmd_push true false 1 d [s2b "s"; s2b "m"] = (d, wrongtype) /\
  cmd_set 1 d [s2b "l"; s2b "v"; s2b "GET"] = (d, wrongtype) /\
  snd (cmd_set 1 d [s2b "l"; s2b "v"]) = ok.
Proof.
  vm_compute. repeat split; try reflexivity. eexists. split; [reflexivity|discriminate].
Qed.

(* ================================================================== *)
(* "the key is gone": what the keyspace commands then report           *)
(* ================================================================== *)
Lemma in_aget_nodup {V} (m : list (bytes * V)) k v :
  NoDup (map fst m) -> In (k, v) m -> aget m k = Some v.
Proof.
  induction m as [|[k0 v0] m IH]; cbn [map fst aget]; intros Hn Hin; [destruct Hin|].
  inversion Hn as [|? ? Hh Ht]; subst. destruct (bytes_eqb k k0) eqn:E.
  - apply bytes_eqb_eq in E. subst k0. destruct Hin as [Heq|Hin]; [congruence|].
    exfalso. apply Hh. change k with (fst (k, v)). apply in_map. exact Hin.
  - apply bytes_eqb_neq in E. destruct Hin as [Heq|Hin]; [congruence|]. apply IH; assumption.
Qed.

Lemma keys_live_iff now d k : wf_db d -> (In k (keys_live now d) <-> lookup now d k <> None).
Proof.
  intros [Hnd _]. unfold keys_live, live. split.
  - intro Hin. apply in_map_iff in Hin. destruct Hin as [[k' e] [Hk Hf]]. cbn [fst] in Hk. subst k'.
    apply filter_In in Hf. destruct Hf as [Hin Hx]. cbn [snd] in Hx.
    unfold lookup. rewrite (in_aget_nodup (d_map d) k e Hnd Hin).
    destruct (expired now e); [discriminate Hx | discriminate].
  - intro Hl. destruct (lookup now d k) as [e|] eqn:E; [|congruence].
    apply lookup_in in E. destruct E as [Hin Hx].
    apply in_map_iff. exists (k, e). split; [reflexivity|]. apply filter_In. split; [exact Hin|].
    cbn [snd]. rewrite Hx. reflexivity.
Qed.

(* once [lookup] says None (as every C06_gone_* theorem concludes), EXISTS replies 0, TYPE
   replies none, and the key is in no KEYS / SCAN reply and not counted by DBSIZE (which is
   the length of [keys_live]) *)
Theorem C06_gone_observable : forall now d k,
  wf_db d -> lookup now d k = None ->
  cmd_exists now d [k] = (d, RInt 0) /\
  cmd_type now d [k] = (d, RSimple (s2b "none")) /\
  ~ In k (keys_live now d) /\
  cmd_dbsize now d [] = (d, RInt (Zlen (keys_live now d))) /\
  (forall p l, snd (cmd_keys now d [p]) = RArrU l -> ~ In (RBulk k) l) /\
  (forall args l b, snd (cmd_scan now d args) = RScan l b -> ~ In (RBulk k) l).
Proof.
  intros now d k Hd Hl.
  assert (Hk : ~ In k (keys_live now d)).
  { intro Hin. apply (keys_live_iff now d k Hd) in Hin. contradiction. }
  split; [|split; [|split; [|split; [|split]]]].
  - unfold cmd_exists. cbn [filter]. rewrite Hl. reflexivity.
  - unfold cmd_type. rewrite Hl. reflexivity.
  - exact Hk.
  - reflexivity.
  - intros p l H. cbn [cmd_keys snd] in H. injection H as <-. intro Hin.
    unfold bulks in Hin. apply in_map_iff in Hin. destruct Hin as [x [Hx Hin]]. injection Hx as ->.
    apply filter_In in Hin. destruct Hin as [Hin _]. contradiction.
  - intros args l b H. unfold cmd_scan in H.
    destruct args as [|cur opts]; [discriminate H|].
    destruct (parse_i64 cur); [|discriminate H].
    destruct (scan_opts (S (length opts)) opts true None None None) as [[[m c] t]|]; [|discriminate H].
    destruct (match c with Some n => n <? 1 | None => false end); [discriminate H|].
    cbn [snd] in H. injection H as <- _. intro Hin.
    unfold bulks in Hin. apply in_map_iff in Hin. destruct Hin as [x [Hx Hin]]. injection Hx as ->.
    apply in_map_iff in Hin. destruct Hin as [[k' e] [Hk' Hin]]. cbn [fst] in Hk'. subst k'.
    apply filter_In in Hin. destruct Hin as [Hin _].
    apply Hk. unfold keys_live. change k with (fst (k, e)). apply in_map. exact Hin.
Qed.
Print Assumptions C06_gone_observable.

Example C06_gone_observable_ex :
  let d := run_cmds 0 empty_db
    [ (s2b "sadd", [s2b "s"; s2b "a"]); (s2b "set", [s2b "k"; s2b "v"]); (s2b "srem", [s2b "s"; s2b "a"]) ] in
  lookup 1 d (s2b "s") = None /\ snd (cmd_exists 1 d [s2b "s"]) = RInt 0 /\
  snd (cmd_keys 1 d [s2b "*"]) = RArrU [RBulk (s2b "k")] /\ snd (cmd_dbsize 1 d []) = RInt 1.
Proof. vm_compute. repeat split; reflexivity. Qed.
