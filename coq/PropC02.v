(* PropC02.v — properties of the STRING commands of the model (Exec.v, section
   "strings"): counters, MSETNX atomicity, GETRANGE/SETRANGE index arithmetic,
   the SET option table, error inertness and framing.  New file; nothing
   existing is modified.  Standard library only. *)
From RE Require Import Base Resp State Exec Lemmas.
From Coq Require Import String.
From Coq Require Import List ZArith NArith Lia Bool.
From Coq Require Import DecimalN DecimalZ DecimalPos DecimalFacts.
Import ListNotations.
Open Scope list_scope.
Open Scope Z_scope.

(* ------------------------------------------------------------------ *)
(* generic tactics                                                      *)
(* ------------------------------------------------------------------ *)

(* destruct the innermost scrutinee of some match/if of the goal *)
Ltac break_match :=
  match goal with
  | |- context [match ?x with _ => _ end] =>
      lazymatch x with
      | context [match _ with _ => _ end] => fail
      | _ => destruct x eqn:?
      end
  end.

Ltac unfold_errs := unfold wrongtype, argerr, notint, syntaxerr, ok, err in *.

(* ================================================================== *)
(* 2. the Go overflow test is mathematical signed 64-bit overflow       *)
(* ================================================================== *)

Lemma in_i64_iff z : in_i64 z = true <-> (- 9223372036854775808 <= z <= 9223372036854775807).
Proof. unfold in_i64, min_i64, max_i64. rewrite andb_true_iff, !Z.leb_le. tauto. Qed.

Lemma in_i64_false_iff z :
  in_i64 z = false <-> (z < - 9223372036854775808 \/ 9223372036854775807 < z).
Proof.
  unfold in_i64, min_i64, max_i64. rewrite andb_false_iff, !Z.leb_gt. tauto.
Qed.

Lemma wrap64_id z : in_i64 z = true -> wrap64 z = z.
Proof.
  intro Hz. apply in_i64_iff in Hz. unfold wrap64.
  assert (Hm : z mod 18446744073709551616 = if z <? 0 then z + 18446744073709551616 else z).
  { destruct (z <? 0) eqn:E.
    - apply Z.ltb_lt in E. symmetry.
      apply Z.mod_unique_pos with (q := -1); lia.
    - apply Z.ltb_ge in E. apply Z.mod_small. lia. }
  rewrite Hm. destruct (z <? 0) eqn:E.
  - apply Z.ltb_lt in E.
    destruct (z + 18446744073709551616 <? 9223372036854775808) eqn:E2.
    + apply Z.ltb_lt in E2. lia.
    + lia.
  - apply Z.ltb_ge in E.
    destruct (z <? 9223372036854775808) eqn:E2.
    + reflexivity.
    + apply Z.ltb_ge in E2. lia.
Qed.

Lemma wrap64_above z :
  9223372036854775807 < z <= 18446744073709551614 -> wrap64 z = z - 18446744073709551616.
Proof.
  intro Hz. unfold wrap64.
  assert (Hm : z mod 18446744073709551616 = z) by (apply Z.mod_small; lia).
  rewrite Hm. destruct (z <? 9223372036854775808) eqn:E.
  - apply Z.ltb_lt in E. lia.
  - reflexivity.
Qed.

Lemma wrap64_below z :
  - 18446744073709551616 <= z < - 9223372036854775808 -> wrap64 z = z + 18446744073709551616.
Proof.
  intro Hz. unfold wrap64.
  assert (Hm : z mod 18446744073709551616 = z + 18446744073709551616).
  { symmetry. apply Z.mod_unique_pos with (q := -1); lia. }
  rewrite Hm. destruct (z + 18446744073709551616 <? 9223372036854775808) eqn:E.
  - reflexivity.
  - apply Z.ltb_ge in E. lia.
Qed.

Lemma wrap64_in z : in_i64 (wrap64 z) = true.
Proof.
  apply in_i64_iff. unfold wrap64.
  pose proof (Z.mod_pos_bound z 18446744073709551616 ltac:(lia)) as Hb.
  destruct (z mod 18446744073709551616 <? 9223372036854775808) eqn:E.
  - apply Z.ltb_lt in E. lia.
  - apply Z.ltb_ge in E. lia.
Qed.

(* no hypothesis on the operands is needed for this direction *)
Lemma add_overflows_false v d : in_i64 (v + d) = true -> add_overflows v d = false.
Proof.
  intro H. unfold add_overflows. rewrite (wrap64_id _ H).
  destruct (v <? v + d) eqn:E1, (0 <? d) eqn:E2; try reflexivity; exfalso.
  - apply Z.ltb_lt in E1. apply Z.ltb_ge in E2. lia.
  - apply Z.ltb_ge in E1. apply Z.ltb_lt in E2. lia.
Qed.

Theorem add_overflows_spec v d :
  in_i64 v = true -> in_i64 d = true -> add_overflows v d = negb (in_i64 (v + d)).
Proof.
  intros Hv Hd. destruct (in_i64 (v + d)) eqn:Hs.
  - simpl. apply add_overflows_false. exact Hs.
  - simpl. apply in_i64_iff in Hv. apply in_i64_iff in Hd. apply in_i64_false_iff in Hs.
    unfold add_overflows. destruct Hs as [Hlo|Hhi].
    + rewrite wrap64_below by lia.
      destruct (v <? v + d + 18446744073709551616) eqn:E1, (0 <? d) eqn:E2; try reflexivity; exfalso.
      * apply Z.ltb_lt in E2. lia.
      * apply Z.ltb_ge in E1. lia.
    + rewrite wrap64_above by lia.
      destruct (v <? v + d - 18446744073709551616) eqn:E1, (0 <? d) eqn:E2; try reflexivity; exfalso.
      * apply Z.ltb_lt in E1. lia.
      * apply Z.ltb_ge in E2. lia.
Qed.
Print Assumptions add_overflows_spec.

Example add_overflows_ex :
  add_overflows max_i64 1 = true /\ add_overflows min_i64 (-1) = true /\
  add_overflows max_i64 min_i64 = false /\ add_overflows (max_i64 - 1) 1 = false.
Proof. vm_compute. repeat split. Qed.

(* ================================================================== *)
(* 3. INCR family                                                       *)
(* ================================================================== *)

Lemma parse_i64_in b z : parse_i64 b = Some z -> in_i64 z = true.
Proof.
  unfold parse_i64. intro H.
  match type of H with (match ?x with _ => _ end) = _ => destruct x as [neg ds] end.
  destruct (parse_udec ds) as [n|]; [|discriminate].
  destruct (in_i64 (if neg then - Z.of_N n else Z.of_N n)) eqn:E; [|discriminate].
  inversion H; subst. exact E.
Qed.

Lemma strict_i64_parse b z : strict_i64 b = Some z -> parse_i64 b = Some z /\ b = Z_to_bytes z.
Proof.
  unfold strict_i64. destruct (parse_i64 b) as [z'|]; [|discriminate].
  destruct (bytes_eqb (Z_to_bytes z') b) eqn:E; [|discriminate].
  intro H. inversion H; subst. apply bytes_eqb_eq in E. auto.
Qed.

Lemma strict_i64_in b z : strict_i64 b = Some z -> in_i64 z = true.
Proof. intro H. apply strict_i64_parse in H as [H _]. eapply parse_i64_in; eauto. Qed.

Lemma expired_none now v n : expired now (mkE v None n) = false.
Proof. reflexivity. Qed.

(* (a) missing key: created with the text of delta, no deadline *)
Theorem incr_core_missing now d k delta :
  lookup now d k = None ->
  incr_core now d k delta = (put d k (VStr (Z_to_bytes delta)) None, RInt delta) /\
  lookup now (fst (incr_core now d k delta)) k =
    Some (mkE (VStr (Z_to_bytes delta)) None (d_next d + 1)%N).
Proof.
  intro H. unfold incr_core. rewrite H. split; [reflexivity|].
  cbn [fst]. rewrite lookup_put_same. reflexivity.
Qed.
Print Assumptions incr_core_missing.

(* (b) integer string, sum representable: value replaced, deadline kept *)
Theorem incr_core_ok now d k delta e b v :
  lookup now d k = Some e -> e_val e = VStr b -> strict_i64 b = Some v ->
  in_i64 (v + delta) = true ->
  incr_core now d k delta = (put d k (VStr (Z_to_bytes (v + delta))) (e_exp e), RInt (v + delta)) /\
  lookup now (fst (incr_core now d k delta)) k =
    Some (mkE (VStr (Z_to_bytes (v + delta))) (e_exp e) (d_next d + 1)%N).
Proof.
  intros Hl Hv Hs Hin. unfold incr_core, str_of. rewrite Hl, Hv, Hs.
  rewrite (add_overflows_false _ _ Hin). split; [reflexivity|].
  cbn [fst]. rewrite lookup_put_same. cbn zeta.
  (* the entry was visible, so its deadline is not in the past *)
  unfold lookup in Hl. destruct (aget (d_map d) k) as [e0|]; [|discriminate].
  destruct (expired now e0) eqn:Ex; [discriminate|]. inversion Hl; subst e0.
  unfold expired in *. cbn [e_exp]. rewrite Ex. reflexivity.
Qed.
Print Assumptions incr_core_ok.

(* (c) every error leaves the database exactly as it was *)
Theorem incr_core_err_inert now d k delta :
  (exists s, snd (incr_core now d k delta) = RErr s) -> fst (incr_core now d k delta) = d.
Proof.
  intros [s H]. revert H. unfold incr_core.
  repeat break_match; cbn [fst snd]; intro H; try reflexivity; discriminate.
Qed.
Print Assumptions incr_core_err_inert.

(* the three cases are exhaustive: anything else is an error (and by (c) inert) *)
Theorem incr_core_otherwise now d k delta e :
  in_i64 delta = true ->
  lookup now d k = Some e ->
  (forall b, e_val e <> VStr b) \/
  (exists b, e_val e = VStr b /\ strict_i64 b = None) \/
  (exists b v, e_val e = VStr b /\ strict_i64 b = Some v /\ in_i64 (v + delta) = false) ->
  (exists s, snd (incr_core now d k delta) = RErr s) /\ fst (incr_core now d k delta) = d.
Proof.
  intros Hd Hl Hc. unfold incr_core, str_of. rewrite Hl.
  destruct Hc as [Hc|[[b [Hb Hs]]|[b [v [Hb [Hs Ho]]]]]].
  - destruct (e_val e) eqn:Ev; try (split; [eexists; reflexivity|reflexivity]).
    exfalso. eapply Hc. reflexivity.
  - rewrite Hb, Hs. split; [eexists; reflexivity|reflexivity].
  - rewrite Hb, Hs. rewrite add_overflows_spec by (eauto using strict_i64_in).
    rewrite Ho. split; [eexists; reflexivity|reflexivity].
Qed.
Print Assumptions incr_core_otherwise.

(* command level: INCR/DECR (delta = 1 / -1) and INCRBY/DECRBY *)
Lemma cmd_incr_core delta now d k : cmd_incr delta now d [k] = incr_core now d k delta.
Proof. reflexivity. Qed.

Lemma cmd_incrby_core now d k nb n :
  parse_i64 nb = Some n -> cmd_incrby 1 now d [k; nb] = incr_core now d k n.
Proof. intro H. unfold cmd_incrby. rewrite H. reflexivity. Qed.

Lemma cmd_decrby_core now d k nb n :
  parse_i64 nb = Some n -> n <> min_i64 -> cmd_incrby (-1) now d [k; nb] = incr_core now d k (- n).
Proof.
  intros H Hn. unfold cmd_incrby. rewrite H. cbn [Z.eqb andb].
  apply Z.eqb_neq in Hn. rewrite Hn. reflexivity.
Qed.

Theorem cmd_incr_missing delta now d k :
  lookup now d k = None ->
  cmd_incr delta now d [k] = (put d k (VStr (Z_to_bytes delta)) None, RInt delta).
Proof. intro H. rewrite cmd_incr_core. apply incr_core_missing. exact H. Qed.
Print Assumptions cmd_incr_missing.

Theorem cmd_incr_ok delta now d k e b v :
  lookup now d k = Some e -> e_val e = VStr b -> strict_i64 b = Some v ->
  in_i64 (v + delta) = true ->
  cmd_incr delta now d [k] = (put d k (VStr (Z_to_bytes (v + delta))) (e_exp e), RInt (v + delta)).
Proof. intros. rewrite cmd_incr_core. eapply incr_core_ok; eauto. Qed.
Print Assumptions cmd_incr_ok.

Theorem cmd_incrby_missing now d k nb n :
  parse_i64 nb = Some n -> lookup now d k = None ->
  cmd_incrby 1 now d [k; nb] = (put d k (VStr (Z_to_bytes n)) None, RInt n).
Proof. intros Hp H. rewrite (cmd_incrby_core _ _ _ _ _ Hp). apply incr_core_missing. exact H. Qed.
Print Assumptions cmd_incrby_missing.

Theorem cmd_incrby_ok now d k nb n e b v :
  parse_i64 nb = Some n ->
  lookup now d k = Some e -> e_val e = VStr b -> strict_i64 b = Some v ->
  in_i64 (v + n) = true ->
  cmd_incrby 1 now d [k; nb] = (put d k (VStr (Z_to_bytes (v + n))) (e_exp e), RInt (v + n)).
Proof. intros Hp **. rewrite (cmd_incrby_core _ _ _ _ _ Hp). eapply incr_core_ok; eauto. Qed.
Print Assumptions cmd_incrby_ok.

Theorem cmd_decrby_ok now d k nb n e b v :
  parse_i64 nb = Some n -> n <> min_i64 ->
  lookup now d k = Some e -> e_val e = VStr b -> strict_i64 b = Some v ->
  in_i64 (v - n) = true ->
  cmd_incrby (-1) now d [k; nb] = (put d k (VStr (Z_to_bytes (v - n))) (e_exp e), RInt (v - n)).
Proof.
  intros Hp Hn **. rewrite (cmd_decrby_core _ _ _ _ _ Hp Hn).
  replace (v - n) with (v + - n) by lia. eapply incr_core_ok; eauto.
Qed.
Print Assumptions cmd_decrby_ok.

Example incr_ex :
  let d := fst (cmd_set 0 empty_db [s2b "k"%string; s2b "41"%string]) in
  snd (cmd_incr 1 0 d [s2b "k"%string]) = RInt 42 /\
  snd (cmd_incrby 1 0 d [s2b "k"%string; s2b "9223372036854775807"%string]) = notint /\
  fst (cmd_incrby 1 0 d [s2b "k"%string; s2b "9223372036854775807"%string]) = d /\
  snd (cmd_incr 1 0 empty_db [s2b "n"%string]) = RInt 1.
Proof. vm_compute. repeat split. Qed.

(* ================================================================== *)
(* 4. MSETNX is all-or-nothing                                          *)
(* ================================================================== *)

Definition mset_step (d : db) (kv : bytes * bytes) : db := put d (fst kv) (VStr (snd kv)) None.

Lemma mset_fold_other now ps : forall d k',
  ~ In k' (map fst ps) -> lookup now (fold_left mset_step ps d) k' = lookup now d k'.
Proof.
  induction ps as [|[k v] ps IH]; intros d k' Hn; cbn [fold_left]; [reflexivity|].
  cbn [map fst In] in Hn. rewrite IH by tauto.
  unfold mset_step; cbn [fst snd]. apply lookup_put_other. intro E; apply Hn; left; congruence.
Qed.

(* the value left in key k is the one of the LAST pair that mentions k *)
Lemma mset_fold_last now ps1 ps2 k v d :
  ~ In k (map fst ps2) ->
  exists e, lookup now (fold_left mset_step (ps1 ++ (k, v) :: ps2) d) k = Some e /\
            e_val e = VStr v /\ e_exp e = None.
Proof.
  intro Hn. rewrite fold_left_app. cbn [fold_left].
  rewrite mset_fold_other by exact Hn.
  unfold mset_step at 1; cbn [fst snd]. rewrite lookup_put_same. cbn zeta.
  rewrite expired_none. eexists; split; [reflexivity|]. split; reflexivity.
Qed.

Lemma existsb_visible now d (ps : list (bytes * bytes)) :
  existsb (fun kv => match lookup now d (fst kv) with Some _ => true | None => false end) ps = true
  <-> exists k v e, In (k, v) ps /\ lookup now d k = Some e.
Proof.
  rewrite existsb_exists. split.
  - intros [[k v] [Hin Hl]]. cbn [fst] in Hl. destruct (lookup now d k) as [e|] eqn:E; [|discriminate].
    exists k, v, e. auto.
  - intros [k [v [e [Hin Hl]]]]. exists (k, v). split; [exact Hin|]. cbn [fst]. rewrite Hl. reflexivity.
Qed.

Lemma cmd_msetnx_unfold now d args ps :
  args <> [] -> pairs_of args = Some ps ->
  cmd_msetnx now d args =
    if existsb (fun kv => match lookup now d (fst kv) with Some _ => true | None => false end) ps
    then (d, RInt 0) else (fold_left mset_step ps d, RInt 1).
Proof.
  intros Hne Hp. unfold cmd_msetnx. destruct args as [|a0 args0]; [congruence|]. rewrite Hp. reflexivity.
Qed.

(* some key visible: nothing at all is written *)
Theorem msetnx_none now d args ps k v e :
  args <> [] -> pairs_of args = Some ps ->
  In (k, v) ps -> lookup now d k = Some e ->
  cmd_msetnx now d args = (d, RInt 0).
Proof.
  intros Hne Hp Hin Hl. rewrite (cmd_msetnx_unfold _ _ _ _ Hne Hp).
  assert (Hx : existsb (fun kv => match lookup now d (fst kv) with Some _ => true | None => false end) ps = true).
  { apply existsb_visible. eauto. }
  rewrite Hx. reflexivity.
Qed.
Print Assumptions msetnx_none.

(* no key visible: every key is written (last pair wins, no deadline), others untouched *)
Theorem msetnx_all now d args ps :
  args <> [] -> pairs_of args = Some ps ->
  (forall k v, In (k, v) ps -> lookup now d k = None) ->
  let d' := fst (cmd_msetnx now d args) in
  snd (cmd_msetnx now d args) = RInt 1 /\
  (forall ps1 k v ps2, ps = ps1 ++ (k, v) :: ps2 -> ~ In k (map fst ps2) ->
     exists e, lookup now d' k = Some e /\ e_val e = VStr v /\ e_exp e = None) /\
  (forall k', ~ In k' (map fst ps) -> lookup now d' k' = lookup now d k').
Proof.
  intros Hne Hp Hall. cbv zeta. rewrite (cmd_msetnx_unfold _ _ _ _ Hne Hp).
  destruct (existsb _ ps) eqn:Hx.
  - exfalso. apply existsb_visible in Hx as [k [v [e [Hin Hl]]]].
    rewrite (Hall _ _ Hin) in Hl. discriminate.
  - cbn [fst snd]. split; [reflexivity|]. split.
    + intros ps1 k v ps2 -> Hn. apply mset_fold_last. exact Hn.
    + intros k' Hn. apply mset_fold_other. exact Hn.
Qed.
Print Assumptions msetnx_all.

(* every key of the pairs does have a last pair, so the clause above covers all of them *)
Lemma last_pair_exists (ps : list (bytes * bytes)) k :
  In k (map fst ps) -> exists ps1 v ps2, ps = ps1 ++ (k, v) :: ps2 /\ ~ In k (map fst ps2).
Proof.
  induction ps as [|[k0 v0] ps IH]; cbn [map fst In]; [tauto|]. intro H.
  destruct (in_dec bytes_eq_dec k (map fst ps)) as [Hin|Hnin].
  - destruct (IH Hin) as [ps1 [v [ps2 [E Hn]]]]. exists ((k0, v0) :: ps1), v, ps2.
    split; [rewrite E; reflexivity|exact Hn].
  - destruct H as [H|H]; [|contradiction]. subst k0. exists [], v0, ps. split; [reflexivity|exact Hnin].
Qed.

Corollary msetnx_all_keys_set now d args ps k :
  args <> [] -> pairs_of args = Some ps ->
  (forall k v, In (k, v) ps -> lookup now d k = None) ->
  In k (map fst ps) ->
  exists v e, In (k, v) ps /\ lookup now (fst (cmd_msetnx now d args)) k = Some e /\
              e_val e = VStr v /\ e_exp e = None.
Proof.
  intros Hne Hp Hall Hin.
  destruct (last_pair_exists ps k Hin) as [ps1 [v [ps2 [E Hn]]]].
  destruct (msetnx_all now d args ps Hne Hp Hall) as [_ [Hset _]].
  destruct (Hset ps1 k v ps2 E Hn) as [e He]. exists v, e. split; [|exact He].
  rewrite E. apply in_or_app. right. left. reflexivity.
Qed.
Print Assumptions msetnx_all_keys_set.

(* dichotomy: the reply is 0 or 1 and, when 0, the db is the input db *)
Theorem msetnx_all_or_nothing now d args ps :
  args <> [] -> pairs_of args = Some ps ->
  (cmd_msetnx now d args = (d, RInt 0) /\ exists k v e, In (k, v) ps /\ lookup now d k = Some e) \/
  (snd (cmd_msetnx now d args) = RInt 1 /\ forall k v, In (k, v) ps -> lookup now d k = None).
Proof.
  intros Hne Hp. rewrite (cmd_msetnx_unfold _ _ _ _ Hne Hp).
  destruct (existsb _ ps) eqn:Hx.
  - left. split; [reflexivity|]. apply existsb_visible. exact Hx.
  - right. split; [reflexivity|]. intros k v Hin.
    destruct (lookup now d k) as [e|] eqn:El; [|reflexivity].
    assert (Ht : existsb (fun kv => match lookup now d (fst kv) with Some _ => true | None => false end) ps = true)
      by (apply existsb_visible; eauto).
    congruence.
Qed.
Print Assumptions msetnx_all_or_nothing.

Example msetnx_ex :
  let d := fst (cmd_set 0 empty_db [s2b "b"%string; s2b "old"%string]) in
  cmd_msetnx 0 d [s2b "a"%string; s2b "1"%string; s2b "b"%string; s2b "2"%string] = (d, RInt 0) /\
  snd (cmd_msetnx 0 d [s2b "a"%string; s2b "1"%string; s2b "a"%string; s2b "2"%string]) = RInt 1 /\
  snd (cmd_get 0 (fst (cmd_msetnx 0 d [s2b "a"%string; s2b "1"%string; s2b "a"%string; s2b "2"%string]))
         [s2b "a"%string]) = RBulk (s2b "2"%string).
Proof. vm_compute. repeat split. Qed.

(* ================================================================== *)
(* 8. error replies never change the database                           *)
(* ================================================================== *)

Ltac err_inert :=
  intros; 
  match goal with H : snd _ = RErr _ |- _ => revert H end;
  repeat break_match; unfold_errs; cbn [fst snd];
  intro; try reflexivity; try discriminate; try congruence.

Lemma set_core_err_inert now d k v o s :
  snd (set_core now d k v o) = RErr s -> fst (set_core now d k v o) = d.
Proof. unfold set_core, str_of. err_inert. Qed.

Lemma cmd_set_err_inert now d args s :
  snd (cmd_set now d args) = RErr s -> fst (cmd_set now d args) = d.
Proof.
  unfold cmd_set. destruct args as [|k [|v opts]]; try reflexivity.
  destruct (scan_set now (S (length opts)) opts so0 false false false); try reflexivity.
  apply set_core_err_inert.
Qed.

Lemma cmd_setnx_err_inert now d args s :
  snd (cmd_setnx now d args) = RErr s -> fst (cmd_setnx now d args) = d.
Proof. unfold cmd_setnx. err_inert. Qed.

Lemma cmd_setex_err_inert unit now d args s :
  snd (cmd_setex unit now d args) = RErr s -> fst (cmd_setex unit now d args) = d.
Proof. unfold cmd_setex. err_inert. Qed.

Lemma cmd_get_err_inert now d args s :
  snd (cmd_get now d args) = RErr s -> fst (cmd_get now d args) = d.
Proof. unfold cmd_get. err_inert. Qed.

Lemma cmd_getset_err_inert now d args s :
  snd (cmd_getset now d args) = RErr s -> fst (cmd_getset now d args) = d.
Proof.
  unfold cmd_getset. destruct args as [|k [|v [|x r]]]; try reflexivity. apply set_core_err_inert.
Qed.

Lemma cmd_getdel_err_inert now d args s :
  snd (cmd_getdel now d args) = RErr s -> fst (cmd_getdel now d args) = d.
Proof. unfold cmd_getdel. err_inert. Qed.

Lemma cmd_getex_err_inert now d args s :
  snd (cmd_getex now d args) = RErr s -> fst (cmd_getex now d args) = d.
Proof. unfold cmd_getex. cbv zeta. err_inert. Qed.

Lemma cmd_append_err_inert now d args s :
  snd (cmd_append now d args) = RErr s -> fst (cmd_append now d args) = d.
Proof. unfold cmd_append. err_inert. Qed.

Lemma cmd_strlen_err_inert now d args s :
  snd (cmd_strlen now d args) = RErr s -> fst (cmd_strlen now d args) = d.
Proof. unfold cmd_strlen. err_inert. Qed.

Lemma cmd_getrange_err_inert now d args s :
  snd (cmd_getrange now d args) = RErr s -> fst (cmd_getrange now d args) = d.
Proof. unfold cmd_getrange. err_inert. Qed.

Lemma cmd_setrange_err_inert now d args s :
  snd (cmd_setrange now d args) = RErr s -> fst (cmd_setrange now d args) = d.
Proof. unfold cmd_setrange. cbv zeta. err_inert. Qed.

Lemma cmd_incr_err_inert delta now d args s :
  snd (cmd_incr delta now d args) = RErr s -> fst (cmd_incr delta now d args) = d.
Proof.
  unfold cmd_incr. destruct args as [|k [|x r]]; try reflexivity.
  intro H. apply incr_core_err_inert. eauto.
Qed.

Lemma cmd_incrby_err_inert sign now d args s :
  snd (cmd_incrby sign now d args) = RErr s -> fst (cmd_incrby sign now d args) = d.
Proof.
  unfold cmd_incrby. destruct args as [|k [|n [|x r]]]; try reflexivity.
  destruct (parse_i64 n); try reflexivity.
  destruct ((sign =? -1) && (z =? min_i64)); [reflexivity|].
  intro H. apply incr_core_err_inert. eauto.
Qed.

Lemma cmd_mget_err_inert now d args s :
  snd (cmd_mget now d args) = RErr s -> fst (cmd_mget now d args) = d.
Proof. unfold cmd_mget. destruct args; reflexivity. Qed.

Lemma cmd_mset_err_inert now d args s :
  snd (cmd_mset now d args) = RErr s -> fst (cmd_mset now d args) = d.
Proof. unfold cmd_mset. err_inert. Qed.

Lemma cmd_msetnx_err_inert now d args s :
  snd (cmd_msetnx now d args) = RErr s -> fst (cmd_msetnx now d args) = d.
Proof.
  unfold cmd_msetnx. destruct args as [|a0 args0]; [reflexivity|].
  destruct (pairs_of (a0 :: args0)) as [ps|]; [|reflexivity].
  destruct (existsb _ ps); [reflexivity|]. cbn [fst snd]. discriminate.
Qed.

(* the whole family at once *)
Definition string_cmds : list (Z -> db -> list bytes -> res) :=
  [cmd_set; cmd_setnx; cmd_setex sec; cmd_setex msec; cmd_get; cmd_getset; cmd_getdel; cmd_getex;
   cmd_append; cmd_strlen; cmd_getrange; cmd_setrange; cmd_incr 1; cmd_incr (-1);
   cmd_incrby 1; cmd_incrby (-1); cmd_mget; cmd_mset; cmd_msetnx].

Theorem string_cmds_err_inert f :
  In f string_cmds ->
  forall now d args s, snd (f now d args) = RErr s -> fst (f now d args) = d.
Proof.
  unfold string_cmds. cbn [In]. intros H now d args s.
  repeat (destruct H as [H|H]; [subst f|]); try contradiction.
  - apply cmd_set_err_inert.
  - apply cmd_setnx_err_inert.
  - apply cmd_setex_err_inert.
  - apply cmd_setex_err_inert.
  - apply cmd_get_err_inert.
  - apply cmd_getset_err_inert.
  - apply cmd_getdel_err_inert.
  - apply cmd_getex_err_inert.
  - apply cmd_append_err_inert.
  - apply cmd_strlen_err_inert.
  - apply cmd_getrange_err_inert.
  - apply cmd_setrange_err_inert.
  - apply cmd_incr_err_inert.
  - apply cmd_incr_err_inert.
  - apply cmd_incrby_err_inert.
  - apply cmd_incrby_err_inert.
  - apply cmd_mget_err_inert.
  - apply cmd_mset_err_inert.
  - apply cmd_msetnx_err_inert.
Qed.
Print Assumptions string_cmds_err_inert.

Example err_inert_ex :
  let d := fst (cmd_set 0 empty_db [s2b "k"%string; s2b "abc"%string]) in
  snd (cmd_incr 1 0 d [s2b "k"%string]) = notint /\ fst (cmd_incr 1 0 d [s2b "k"%string]) = d /\
  snd (cmd_setrange 0 d [s2b "k"%string; s2b "-1"%string; s2b "x"%string]) = err "ERR offset is out of range" /\
  In (cmd_incr 1) string_cmds.
Proof.
  split; [vm_compute; reflexivity|]. split; [vm_compute; reflexivity|]. split; [vm_compute; reflexivity|].
  unfold string_cmds. cbn [In]. tauto.
Qed.


(* ================================================================== *)
(* 5. GETRANGE                                                          *)
(* ================================================================== *)

Theorem getrange_bounds_ok n s e a z :
  getrange_bounds n s e = Some (a, z) -> 0 <= a /\ a <= z /\ z < n.
Proof.
  unfold getrange_bounds. intro H.
  destruct ((s <? 0) && (e <? 0) && (e <? s)); [discriminate|].
  revert H.
  destruct (s <? 0) eqn:E1; destruct (e <? 0) eqn:E2;
  repeat match goal with
         | |- context [?x <? ?y] => let E := fresh "E" in destruct (x <? y) eqn:E
         | |- context [?x <=? ?y] => let E := fresh "E" in destruct (x <=? y) eqn:E
         | |- context [?x =? ?y] => let E := fresh "E" in destruct (x =? y) eqn:E
         end; cbn [orb]; intro H; try discriminate; inversion H; subst;
  repeat match goal with
         | E : (_ <? _) = true |- _ => apply Z.ltb_lt in E
         | E : (_ <? _) = false |- _ => apply Z.ltb_ge in E
         | E : (_ <=? _) = true |- _ => apply Z.leb_le in E
         | E : (_ <=? _) = false |- _ => apply Z.leb_gt in E
         | E : (_ =? _) = true |- _ => apply Z.eqb_eq in E
         | E : (_ =? _) = false |- _ => apply Z.eqb_neq in E
         end; lia.
Qed.
Print Assumptions getrange_bounds_ok.

Lemma slice_length {A} (l : list A) a z :
  0 <= a -> a <= z -> z < Zlen l -> length (slice l a z) = Z.to_nat (z - a + 1).
Proof.
  unfold slice, Zlen. intros H0 H1 H2. rewrite firstn_length, skipn_length. lia.
Qed.

Lemma nth_skipn {A} (l : list A) n i dflt : nth i (skipn n l) dflt = nth (n + i) l dflt.
Proof.
  revert l. induction n as [|n IH]; intro l; [reflexivity|].
  destruct l as [|x l]; cbn [skipn plus nth]; [destruct i; reflexivity|]. apply IH.
Qed.

Lemma nth_firstn_lt {A} (l : list A) n i dflt : (i < n)%nat -> nth i (firstn n l) dflt = nth i l dflt.
Proof.
  revert l i. induction n as [|n IH]; intros l i H; [lia|].
  destruct l as [|x l]; [reflexivity|]. destruct i as [|i]; [reflexivity|].
  cbn [firstn nth]. apply IH. lia.
Qed.

(* the slice is exactly bytes a .. z of the string *)
Lemma slice_nth {A} (l : list A) a z i dflt :
  0 <= a -> (i < Z.to_nat (z - a + 1))%nat ->
  nth i (slice l a z) dflt = nth (Z.to_nat a + i) l dflt.
Proof.
  intros H0 Hi. unfold slice. rewrite nth_firstn_lt by exact Hi. apply nth_skipn.
Qed.

(* Redis 7 t_string.c getrangeCommand, transcribed statement by statement:
     if (start < 0 && end < 0 && start > end) -> empty
     if (start < 0) start = strlen+start;
     if (end < 0) end = strlen+end;
     if (start < 0) start = 0;
     if (end < 0) end = 0;
     if ((unsigned long long)end >= strlen) end = strlen-1;
     if (start > end || strlen == 0) -> empty
     else reply with the (end-start+1) bytes at str+start                     *)
Definition redis_getrange (str : bytes) (start stop : Z) : bytes :=
  let strlen := Z.of_nat (length str) in
  if (start <? 0) && (stop <? 0) && (start >? stop) then [] else
  let start := if start <? 0 then strlen + start else start in
  let stop := if stop <? 0 then strlen + stop else stop in
  let start := if start <? 0 then 0 else start in
  let stop := if stop <? 0 then 0 else stop in
  let stop := if stop >=? strlen then strlen - 1 else stop in
  if (start >? stop) || (strlen =? 0) then []
  else firstn (Z.to_nat (stop - start + 1)) (skipn (Z.to_nat start) str).

Lemma getrange_model_eq_redis b s e :
  match getrange_bounds (Zlen b) s e with
  | Some (a, z) => slice b a z
  | None => []
  end = redis_getrange b s e.
Proof.
  unfold getrange_bounds, redis_getrange, slice, Zlen.
  rewrite !Z.gtb_ltb, !Z.geb_leb.
  destruct ((s <? 0) && (e <? 0) && (e <? s)); [reflexivity|]. cbv zeta.
  match goal with |- context [(?x <? ?y) || ?c] => destruct ((x <? y) || c) end; reflexivity.
Qed.

Theorem cmd_getrange_redis now d k sb eb s e en b :
  parse_i64 sb = Some s -> parse_i64 eb = Some e ->
  lookup now d k = Some en -> e_val en = VStr b ->
  cmd_getrange now d [k; sb; eb] = (d, RBulk (redis_getrange b s e)).
Proof.
  intros Hs He Hl Hv. unfold cmd_getrange, str_of. rewrite Hs, He, Hl, Hv.
  rewrite <- getrange_model_eq_redis.
  destruct (getrange_bounds (Zlen b) s e) as [[a z]|]; reflexivity.
Qed.
Print Assumptions cmd_getrange_redis.

Theorem cmd_getrange_missing now d k sb eb s e :
  parse_i64 sb = Some s -> parse_i64 eb = Some e -> lookup now d k = None ->
  cmd_getrange now d [k; sb; eb] = (d, RBulk []).
Proof. intros Hs He Hl. unfold cmd_getrange. rewrite Hs, He, Hl. reflexivity. Qed.
Print Assumptions cmd_getrange_missing.

(* a closed form of Redis' rule, independent of the order of the C statements:
   the reply is the bytes with index in [max 0 (norm start), min (len-1) (max 0 (norm stop))],
   except for Redis' early exit when both offsets are negative and start > stop *)
Definition norm_idx (len i : Z) : Z := Z.max 0 (if i <? 0 then len + i else i).

Theorem redis_getrange_closed b s e :
  let len := Zlen b in
  let lo := norm_idx len s in
  let hi := Z.min (len - 1) (norm_idx len e) in
  redis_getrange b s e =
    if (s <? 0) && (e <? 0) && (e <? s) then []      (* e.g. GETRANGE k -100 -101 is empty, not byte 0 *)
    else if lo <=? hi then slice b lo hi else [].
Proof.
  cbv zeta. unfold redis_getrange, norm_idx, slice, Zlen.
  set (n := Z.of_nat (length b)). assert (Hn : 0 <= n) by (unfold n; lia).
  rewrite !Z.gtb_ltb, !Z.geb_leb.
  destruct (s <? 0) eqn:E1; destruct (e <? 0) eqn:E2; cbn [andb];
  repeat match goal with
         | |- context [?x <? ?y] => let E := fresh "E" in destruct (x <? y) eqn:E
         | |- context [?x <=? ?y] => let E := fresh "E" in destruct (x <=? y) eqn:E
         | |- context [?x =? ?y] => let E := fresh "E" in destruct (x =? y) eqn:E
         end; cbn [orb];
  repeat match goal with
         | E : (_ <? _) = true |- _ => apply Z.ltb_lt in E
         | E : (_ <? _) = false |- _ => apply Z.ltb_ge in E
         | E : (_ <=? _) = true |- _ => apply Z.leb_le in E
         | E : (_ <=? _) = false |- _ => apply Z.leb_gt in E
         | E : (_ =? _) = true |- _ => apply Z.eqb_eq in E
         | E : (_ =? _) = false |- _ => apply Z.eqb_neq in E
         end; try reflexivity; try (exfalso; lia);
  try (f_equal; [f_equal; lia | f_equal; f_equal; lia]).
Qed.
Print Assumptions redis_getrange_closed.

Example getrange_ex :
  let d := fst (cmd_set 0 empty_db [s2b "k"%string; s2b "This is a string"%string]) in
  snd (cmd_getrange 0 d [s2b "k"%string; s2b "0"%string; s2b "3"%string]) = RBulk (s2b "This"%string) /\
  snd (cmd_getrange 0 d [s2b "k"%string; s2b "-3"%string; s2b "-1"%string]) = RBulk (s2b "ing"%string) /\
  snd (cmd_getrange 0 d [s2b "k"%string; s2b "10"%string; s2b "100"%string]) = RBulk (s2b "string"%string) /\
  snd (cmd_getrange 0 d [s2b "k"%string; s2b "-1"%string; s2b "-5"%string]) = RBulk [] /\
  snd (cmd_getrange 0 d [s2b "k"%string; s2b "-100"%string; s2b "-50"%string]) = RBulk (s2b "T"%string) /\
  getrange_bounds 16 (-3) (-1) = Some (13, 15).
Proof. vm_compute. repeat split. Qed.

(* ================================================================== *)
(* 1. decimal text: printing and (strict) parsing are inverse           *)
(* ================================================================== *)

Lemma is_digit_cases c : is_digit c = true ->
  (c = 48 \/ c = 49 \/ c = 50 \/ c = 51 \/ c = 52 \/ c = 53 \/ c = 54 \/ c = 55 \/ c = 56 \/ c = 57)%N.
Proof.
  unfold is_digit. rewrite andb_true_iff, !N.leb_le. lia.
Qed.

Lemma parse_i64_digit c r : is_digit c = true ->
  parse_i64 (c :: r) =
  match parse_udec (c :: r) with
  | Some n => if in_i64 (Z.of_N n) then Some (Z.of_N n) else None
  | None => None
  end.
Proof.
  intro H. apply is_digit_cases in H.
  repeat (destruct H as [H|H]; [subst c; reflexivity|]). subst c; reflexivity.
Qed.

Lemma parse_i64_minus r :
  parse_i64 (45%N :: r) =
  match parse_udec r with
  | Some n => if in_i64 (- Z.of_N n) then Some (- Z.of_N n) else None
  | None => None
  end.
Proof. reflexivity. Qed.

Lemma uint_bytes_head u : u <> Decimal.Nil ->
  exists c r, uint_bytes u = c :: r /\ is_digit c = true.
Proof.
  destruct u; intro H; try congruence; cbn [uint_bytes]; eexists; eexists; split; reflexivity.
Qed.

Lemma parse_udec_uint_bytes u : u <> Decimal.Nil -> parse_udec (uint_bytes u) = Some (N.of_uint u).
Proof.
  intro H. destruct (uint_bytes_head u H) as [c [r [E _]]].
  unfold parse_udec. rewrite bytes_uint_uint_bytes. rewrite E. reflexivity.
Qed.

Lemma parse_i64_uint_bytes u : u <> Decimal.Nil ->
  parse_i64 (uint_bytes u) =
  match parse_udec (uint_bytes u) with
  | Some n => if in_i64 (Z.of_N n) then Some (Z.of_N n) else None
  | None => None
  end.
Proof.
  intro H. destruct (uint_bytes_head u H) as [c [r [E Hc]]]. rewrite E. apply parse_i64_digit. exact Hc.
Qed.

Theorem parse_i64_Z_to_bytes z : in_i64 z = true -> parse_i64 (Z_to_bytes z) = Some z.
Proof.
  intro Hz. destruct z as [|p|p].
  - reflexivity.
  - cbn [Z_to_bytes].
    pose proof (Unsigned.to_uint_nonnil p) as Hn.
    rewrite (parse_i64_uint_bytes _ Hn), (parse_udec_uint_bytes _ Hn).
    unfold N.of_uint. rewrite Unsigned.of_to. cbn [Z.of_N]. rewrite Hz. reflexivity.
  - cbn [Z_to_bytes]. rewrite parse_i64_minus.
    rewrite (parse_udec_uint_bytes _ (Unsigned.to_uint_nonnil p)).
    unfold N.of_uint. rewrite Unsigned.of_to. cbn [Z.of_N Z.opp]. rewrite Hz. reflexivity.
Qed.
Print Assumptions parse_i64_Z_to_bytes.

Theorem strict_i64_Z_to_bytes z : in_i64 z = true -> strict_i64 (Z_to_bytes z) = Some z.
Proof.
  intro Hz. unfold strict_i64. rewrite (parse_i64_Z_to_bytes _ Hz), bytes_eqb_refl. reflexivity.
Qed.
Print Assumptions strict_i64_Z_to_bytes.

Theorem strict_i64_sound b z : strict_i64 b = Some z -> b = Z_to_bytes z /\ in_i64 z = true.
Proof.
  intro H. split.
  - apply strict_i64_parse in H. tauto.
  - eapply strict_i64_in; eauto.
Qed.
Print Assumptions strict_i64_sound.

(* so the strict reader accepts exactly the canonical decimal texts of int64 values *)
Corollary strict_i64_iff b z : strict_i64 b = Some z <-> b = Z_to_bytes z /\ in_i64 z = true.
Proof.
  split; [apply strict_i64_sound|]. intros [-> Hz]. apply strict_i64_Z_to_bytes. exact Hz.
Qed.
Print Assumptions strict_i64_iff.

(* a counter result can always be incremented again: INCR output is strict input *)
Corollary incr_result_reparses v delta :
  in_i64 (v + delta) = true -> strict_i64 (Z_to_bytes (v + delta)) = Some (v + delta).
Proof. apply strict_i64_Z_to_bytes. Qed.
Print Assumptions incr_result_reparses.

Example decimal_ex :
  strict_i64 (s2b "-9223372036854775808"%string) = Some min_i64 /\
  strict_i64 (s2b "9223372036854775808"%string) = None /\
  strict_i64 (s2b "+1"%string) = None /\ strict_i64 (s2b "01"%string) = None /\
  strict_i64 (s2b "-0"%string) = None /\ strict_i64 [] = None /\
  parse_i64 (s2b "+01"%string) = Some 1 /\
  Z_to_bytes (-120) = s2b "-120"%string.
Proof. vm_compute. repeat split. Qed.

(* ================================================================== *)
(* 6. SETRANGE: length and contents of the patched string               *)
(* ================================================================== *)

Lemma repeatN_length {A} (x : A) n : length (repeatN x n) = n.
Proof. induction n as [|n IH]; cbn [repeatN length]; congruence. Qed.

Lemma nth_repeatN {A} (x : A) n i : nth i (repeatN x n) x = x.
Proof.
  revert i. induction n as [|n IH]; intro i; cbn [repeatN]; destruct i; try reflexivity. apply IH.
Qed.

(* holds for empty v too; the command only calls it with v <> [] *)
Theorem setrange_length old off v :
  length (setrange_bytes old off v) = Nat.max (length old) (off + length v).
Proof.
  unfold setrange_bytes. rewrite !app_length, firstn_length, app_length, repeatN_length, skipn_length. lia.
Qed.
Print Assumptions setrange_length.

(* before the offset: the old bytes, zero where the old string was shorter *)
Theorem setrange_nth_before old off v i :
  (i < off)%nat -> nth i (setrange_bytes old off v) 0%N = nth i old 0%N.
Proof.
  intro Hi. unfold setrange_bytes.
  rewrite app_nth1 by (rewrite firstn_length, app_length, repeatN_length; lia).
  rewrite nth_firstn_lt by exact Hi.
  destruct (Nat.lt_ge_cases i (length old)) as [Hlt|Hge].
  - apply app_nth1. exact Hlt.
  - rewrite app_nth2 by exact Hge. rewrite nth_repeatN. symmetry. apply nth_overflow. exact Hge.
Qed.
Print Assumptions setrange_nth_before.

Corollary setrange_zero_padding old off v i :
  (length old <= i < off)%nat -> nth i (setrange_bytes old off v) 0%N = 0%N.
Proof. intros [H1 H2]. rewrite setrange_nth_before by exact H2. apply nth_overflow. exact H1. Qed.
Print Assumptions setrange_zero_padding.

(* inside the patch: the new bytes *)
Theorem setrange_nth_patch old off v i :
  (off <= i < off + length v)%nat -> nth i (setrange_bytes old off v) 0%N = nth (i - off) v 0%N.
Proof.
  intros [H1 H2]. unfold setrange_bytes.
  assert (Hl : length (firstn off (old ++ repeatN 0%N (off - length old))) = off)
    by (rewrite firstn_length, app_length, repeatN_length; lia).
  rewrite app_nth2 by lia. rewrite Hl. apply app_nth1. lia.
Qed.
Print Assumptions setrange_nth_patch.

(* after the patch: the old tail *)
Theorem setrange_nth_after old off v i :
  (off + length v <= i)%nat -> nth i (setrange_bytes old off v) 0%N = nth i old 0%N.
Proof.
  intro H. unfold setrange_bytes.
  assert (Hl : length (firstn off (old ++ repeatN 0%N (off - length old))) = off)
    by (rewrite firstn_length, app_length, repeatN_length; lia).
  rewrite app_nth2 by lia. rewrite Hl. rewrite app_nth2 by lia. rewrite nth_skipn. f_equal. lia.
Qed.
Print Assumptions setrange_nth_after.

(* command level *)
Theorem cmd_setrange_ok now d k ob off v e b :
  parse_i64 ob = Some off -> 0 <= off -> v <> [] -> off + Zlen v <= max_str ->
  lookup now d k = Some e -> e_val e = VStr b ->
  cmd_setrange now d [k; ob; v] =
    (put d k (VStr (setrange_bytes b (Z.to_nat off) v)) (e_exp e),
     RInt (Z.max (Zlen b) (off + Zlen v))).
Proof.
  intros Hp H0 Hv Hm Hl Hb. unfold cmd_setrange, str_of. rewrite Hp, Hl, Hb.
  destruct (off <? 0) eqn:E0; [apply Z.ltb_lt in E0; lia|].
  destruct v as [|x v]; [congruence|].
  destruct (max_str <? off + Zlen (x :: v)) eqn:E1; [apply Z.ltb_lt in E1; lia|].
  cbv zeta. f_equal. f_equal. unfold Zlen. rewrite setrange_length. lia.
Qed.
Print Assumptions cmd_setrange_ok.

Theorem cmd_setrange_missing now d k ob off v :
  parse_i64 ob = Some off -> 0 <= off -> v <> [] -> off + Zlen v <= max_str ->
  lookup now d k = None ->
  cmd_setrange now d [k; ob; v] =
    (put d k (VStr (setrange_bytes [] (Z.to_nat off) v)) None, RInt (off + Zlen v)).
Proof.
  intros Hp H0 Hv Hm Hl. unfold cmd_setrange. rewrite Hp, Hl.
  destruct (off <? 0) eqn:E0; [apply Z.ltb_lt in E0; lia|].
  destruct v as [|x v]; [congruence|].
  destruct (max_str <? off + Zlen (x :: v)) eqn:E1; [apply Z.ltb_lt in E1; lia|].
  cbv zeta. f_equal. f_equal. unfold Zlen. rewrite setrange_length. cbn [length]. lia.
Qed.
Print Assumptions cmd_setrange_missing.

Example setrange_ex :
  setrange_bytes (s2b "Hello World"%string) 6 (s2b "Redis"%string) = s2b "Hello Redis"%string /\
  setrange_bytes (s2b "ab"%string) 4 (s2b "x"%string) = [97; 98; 0; 0; 120]%N /\
  setrange_bytes (s2b "abcdef"%string) 1 (s2b "XY"%string) = s2b "aXYdef"%string.
Proof. vm_compute. repeat split. Qed.

(* ================================================================== *)
(* 7. the SET option table (set_core)                                   *)
(* ================================================================== *)

(* NX on a visible key: no write, whatever the other options *)
Theorem set_core_nx_visible now d k v o e :
  so_nx o = true -> lookup now d k = Some e -> fst (set_core now d k v o) = d.
Proof.
  intros Hnx Hl. unfold set_core. rewrite Hl, Hnx.
  destruct (so_get o && _); reflexivity.
Qed.
Print Assumptions set_core_nx_visible.

Theorem set_core_nx_visible_reply now d k v o e :
  so_nx o = true -> so_get o = false -> lookup now d k = Some e ->
  set_core now d k v o = (d, RNil).
Proof. intros Hnx Hg Hl. unfold set_core. rewrite Hl, Hnx, Hg. reflexivity. Qed.
Print Assumptions set_core_nx_visible_reply.

(* XX on a missing (or expired) key: no write *)
Theorem set_core_xx_missing now d k v o :
  so_xx o = true -> lookup now d k = None -> set_core now d k v o = (d, RNil).
Proof. intros Hxx Hl. unfold set_core. rewrite Hl, Hxx. reflexivity. Qed.
Print Assumptions set_core_xx_missing.

(* GET against a non-string: WRONGTYPE, no write (even with NX/XX) *)
Theorem set_core_get_wrongtype now d k v o e :
  so_get o = true -> lookup now d k = Some e -> (forall b, e_val e <> VStr b) ->
  set_core now d k v o = (d, wrongtype).
Proof.
  intros Hg Hl Hne. unfold set_core, str_of. rewrite Hl, Hg.
  destruct (e_val e) eqn:Ev; try reflexivity. exfalso. eapply Hne. reflexivity.
Qed.
Print Assumptions set_core_get_wrongtype.

(* the write cases.  "no type error" = GET absent or the old value is a string *)
Definition set_no_wrongtype (o : setopts) (e : entry) : Prop :=
  so_get o = false \/ exists b, e_val e = VStr b.

Lemma set_core_visible_write now d k v o e :
  lookup now d k = Some e -> so_nx o = false -> set_no_wrongtype o e ->
  fst (set_core now d k v o) = put d k (VStr v) (if so_keep o then e_exp e else so_exp o).
Proof.
  intros Hl Hnx Hw. unfold set_core, str_of. rewrite Hl, Hnx.
  destruct Hw as [Hg|[b Hb]].
  - rewrite Hg. reflexivity.
  - rewrite Hb. rewrite andb_false_r. reflexivity.
Qed.

(* KEEPTTL keeps the deadline of the overwritten entry *)
Theorem set_core_keepttl now d k v o e :
  lookup now d k = Some e -> so_nx o = false -> set_no_wrongtype o e -> so_keep o = true ->
  fst (set_core now d k v o) = put d k (VStr v) (e_exp e).
Proof. intros Hl Hnx Hw Hk. rewrite (set_core_visible_write _ _ _ _ _ _ Hl Hnx Hw), Hk. reflexivity. Qed.
Print Assumptions set_core_keepttl.

(* without KEEPTTL the deadline is the one given by EX/PX/EXAT/PXAT, or none *)
Theorem set_core_newttl_visible now d k v o e :
  lookup now d k = Some e -> so_nx o = false -> set_no_wrongtype o e -> so_keep o = false ->
  fst (set_core now d k v o) = put d k (VStr v) (so_exp o).
Proof. intros Hl Hnx Hw Hk. rewrite (set_core_visible_write _ _ _ _ _ _ Hl Hnx Hw), Hk. reflexivity. Qed.
Print Assumptions set_core_newttl_visible.

(* on a missing key there is nothing to keep: the deadline is so_exp o *)
Theorem set_core_missing_write now d k v o :
  lookup now d k = None -> so_xx o = false ->
  set_core now d k v o = (put d k (VStr v) (so_exp o), if so_get o then RNil else ok).
Proof. intros Hl Hxx. unfold set_core. rewrite Hl, Hxx. reflexivity. Qed.
Print Assumptions set_core_missing_write.

(* in every write case the stored value is VStr v, with a fresh version *)
Lemma aget_put_same d k x exp :
  aget (d_map (put d k x exp)) k = Some (mkE x exp (d_next d + 1)%N).
Proof. unfold put; cbn [d_map]. apply aget_aset_same. Qed.

Theorem set_core_stored now d k v o :
  (* the complete case analysis: either nothing changes, or k holds VStr v *)
  fst (set_core now d k v o) = d \/
  exists exp, fst (set_core now d k v o) = put d k (VStr v) exp /\
              aget (d_map (fst (set_core now d k v o))) k = Some (mkE (VStr v) exp (d_next d + 1)%N).
Proof.
  unfold set_core.
  destruct (lookup now d k) as [e|].
  - destruct (so_get o && _); [left; reflexivity|].
    destruct (so_nx o); [left; reflexivity|].
    right. eexists. cbn [fst]. split; [reflexivity|]. apply aget_put_same.
  - destruct (so_xx o); [left; reflexivity|].
    right. eexists. cbn [fst]. split; [reflexivity|]. apply aget_put_same.
Qed.
Print Assumptions set_core_stored.

(* exactly when does SET write?  (the "otherwise" of the table) *)
Theorem set_core_writes_iff now d k v o :
  fst (set_core now d k v o) <> d <->
  match lookup now d k with
  | Some e => so_nx o = false /\ set_no_wrongtype o e
  | None => so_xx o = false
  end.
Proof.
  assert (Hput : forall exp, put d k (VStr v) exp <> d).
  { intros exp E. apply (f_equal d_next) in E. rewrite put_next in E. lia. }
  unfold set_core, set_no_wrongtype, str_of.
  destruct (lookup now d k) as [e|].
  - destruct (so_get o) eqn:Hg; destruct (e_val e) eqn:Ev; destruct (so_nx o) eqn:Hnx; cbn [andb fst];
      split; intro H; try (exfalso; apply H; reflexivity); try apply Hput;
      try (destruct H as [H1 H2]; try discriminate;
           destruct H2 as [H2|[b H2]]; discriminate);
      try (split; [reflexivity|]; first [left; reflexivity | right; eexists; reflexivity]).
  - destruct (so_xx o); cbn [fst]; split; intro H; try discriminate; try reflexivity;
      try apply Hput. exfalso; apply H; reflexivity.
Qed.
Print Assumptions set_core_writes_iff.

(* replies of the write cases: GET gives the old string (or nil), otherwise OK *)
Theorem set_core_visible_reply now d k v o e b :
  lookup now d k = Some e -> e_val e = VStr b -> so_nx o = false ->
  snd (set_core now d k v o) = if so_get o then RBulk b else ok.
Proof.
  intros Hl Hb Hnx. unfold set_core, str_of. rewrite Hl, Hb, Hnx, andb_false_r. reflexivity.
Qed.
Print Assumptions set_core_visible_reply.

Example set_ex :
  let d := fst (cmd_set 5 empty_db [s2b "k"%string; s2b "a"%string; s2b "PX"%string; s2b "1"%string]) in
  (* KEEPTTL keeps the 1 ms deadline, plain SET clears it *)
  lookup 5 (fst (cmd_set 5 d [s2b "k"%string; s2b "b"%string; s2b "keepttl"%string])) (s2b "k"%string)
    = Some (mkE (VStr (s2b "b"%string)) (Some 1000005) 2%N) /\
  lookup 5 (fst (cmd_set 5 d [s2b "k"%string; s2b "b"%string])) (s2b "k"%string)
    = Some (mkE (VStr (s2b "b"%string)) None 2%N) /\
  cmd_set 5 d [s2b "k"%string; s2b "b"%string; s2b "NX"%string] = (d, RNil) /\
  cmd_set 5 d [s2b "j"%string; s2b "b"%string; s2b "XX"%string] = (d, RNil) /\
  snd (cmd_set 5 d [s2b "k"%string; s2b "b"%string; s2b "GET"%string]) = RBulk (s2b "a"%string).
Proof. vm_compute. repeat split. Qed.

(* ================================================================== *)
(* 9. frame: single-key string commands touch no other key              *)
(* ================================================================== *)

Ltac frame_tac :=
  repeat break_match; cbn [fst]; try reflexivity;
  try (unfold set_exp; apply lookup_put_other; assumption);
  try (apply lookup_del_other; assumption).

Lemma set_core_frame now d k v o k' :
  k' <> k -> lookup now (fst (set_core now d k v o)) k' = lookup now d k'.
Proof. intro Hne. unfold set_core. frame_tac. Qed.

Lemma incr_core_frame now d k delta k' :
  k' <> k -> lookup now (fst (incr_core now d k delta)) k' = lookup now d k'.
Proof. intro Hne. unfold incr_core. frame_tac. Qed.

Theorem cmd_set_frame now d k rest k' :
  k' <> k -> lookup now (fst (cmd_set now d (k :: rest))) k' = lookup now d k'.
Proof.
  intro Hne. unfold cmd_set. destruct rest as [|v opts]; [reflexivity|].
  destruct (scan_set now (S (length opts)) opts so0 false false false); try reflexivity.
  apply set_core_frame. exact Hne.
Qed.
Print Assumptions cmd_set_frame.

Theorem cmd_setnx_frame now d k rest k' :
  k' <> k -> lookup now (fst (cmd_setnx now d (k :: rest))) k' = lookup now d k'.
Proof. intro Hne. unfold cmd_setnx. frame_tac. Qed.
Print Assumptions cmd_setnx_frame.

Theorem cmd_setex_frame unit now d k rest k' :
  k' <> k -> lookup now (fst (cmd_setex unit now d (k :: rest))) k' = lookup now d k'.
Proof. intro Hne. unfold cmd_setex. frame_tac. Qed.
Print Assumptions cmd_setex_frame.

Theorem cmd_getset_frame now d k rest k' :
  k' <> k -> lookup now (fst (cmd_getset now d (k :: rest))) k' = lookup now d k'.
Proof.
  intro Hne. unfold cmd_getset. destruct rest as [|v [|x r]]; try reflexivity.
  apply set_core_frame. exact Hne.
Qed.
Print Assumptions cmd_getset_frame.

Theorem cmd_getdel_frame now d k rest k' :
  k' <> k -> lookup now (fst (cmd_getdel now d (k :: rest))) k' = lookup now d k'.
Proof. intro Hne. unfold cmd_getdel. frame_tac. Qed.
Print Assumptions cmd_getdel_frame.

Theorem cmd_getex_frame now d k rest k' :
  k' <> k -> lookup now (fst (cmd_getex now d (k :: rest))) k' = lookup now d k'.
Proof. intro Hne. unfold cmd_getex. cbv zeta. frame_tac. Qed.
Print Assumptions cmd_getex_frame.

Theorem cmd_append_frame now d k rest k' :
  k' <> k -> lookup now (fst (cmd_append now d (k :: rest))) k' = lookup now d k'.
Proof. intro Hne. unfold cmd_append. frame_tac. Qed.
Print Assumptions cmd_append_frame.

Theorem cmd_setrange_frame now d k rest k' :
  k' <> k -> lookup now (fst (cmd_setrange now d (k :: rest))) k' = lookup now d k'.
Proof. intro Hne. unfold cmd_setrange. cbv zeta. frame_tac. Qed.
Print Assumptions cmd_setrange_frame.

Theorem cmd_incr_frame delta now d k rest k' :
  k' <> k -> lookup now (fst (cmd_incr delta now d (k :: rest))) k' = lookup now d k'.
Proof.
  intro Hne. unfold cmd_incr. destruct rest; [|reflexivity]. apply incr_core_frame. exact Hne.
Qed.
Print Assumptions cmd_incr_frame.

Theorem cmd_incrby_frame sign now d k rest k' :
  k' <> k -> lookup now (fst (cmd_incrby sign now d (k :: rest))) k' = lookup now d k'.
Proof.
  intro Hne. unfold cmd_incrby. destruct rest as [|n [|x r]]; try reflexivity.
  destruct (parse_i64 n); [|reflexivity].
  destruct ((sign =? -1) && (z =? min_i64)); [reflexivity|]. apply incr_core_frame. exact Hne.
Qed.
Print Assumptions cmd_incrby_frame.

(* read-only commands never change the database at all *)
Theorem string_readonly now d args :
  fst (cmd_get now d args) = d /\ fst (cmd_strlen now d args) = d /\
  fst (cmd_getrange now d args) = d /\ fst (cmd_mget now d args) = d.
Proof.
  repeat split.
  - unfold cmd_get. repeat break_match; reflexivity.
  - unfold cmd_strlen. repeat break_match; reflexivity.
  - unfold cmd_getrange. repeat break_match; reflexivity.
  - unfold cmd_mget. destruct args; reflexivity.
Qed.
Print Assumptions string_readonly.

(* MSET / MSETNX touch only the keys they name *)
Theorem cmd_mset_frame now d args ps k' :
  pairs_of args = Some ps -> ~ In k' (map fst ps) ->
  lookup now (fst (cmd_mset now d args)) k' = lookup now d k'.
Proof.
  intros Hp Hn. unfold cmd_mset. destruct args as [|a0 args0]; [reflexivity|]. rewrite Hp. cbn [fst].
  apply (mset_fold_other now ps d k' Hn).
Qed.
Print Assumptions cmd_mset_frame.

Theorem cmd_msetnx_frame now d args ps k' :
  pairs_of args = Some ps -> ~ In k' (map fst ps) ->
  lookup now (fst (cmd_msetnx now d args)) k' = lookup now d k'.
Proof.
  intros Hp Hn. unfold cmd_msetnx. destruct args as [|a0 args0]; [reflexivity|]. rewrite Hp.
  destruct (existsb _ ps); [reflexivity|]. cbn [fst]. apply (mset_fold_other now ps d k' Hn).
Qed.
Print Assumptions cmd_msetnx_frame.

Example frame_ex :
  let d := fst (cmd_mset 0 empty_db [s2b "a"%string; s2b "1"%string; s2b "b"%string; s2b "2"%string]) in
  lookup 0 (fst (cmd_incr 1 0 d [s2b "a"%string])) (s2b "b"%string) = lookup 0 d (s2b "b"%string) /\
  lookup 0 (fst (cmd_getdel 0 d [s2b "a"%string])) (s2b "b"%string) = lookup 0 d (s2b "b"%string) /\
  lookup 0 (fst (cmd_getdel 0 d [s2b "a"%string])) (s2b "a"%string) = None.
Proof. vm_compute. repeat split. Qed.

(* ================================================================== *)
(* 10. extras                                                           *)
(* ================================================================== *)

(* MSET: unconditional variant of the MSETNX write clause *)
Theorem mset_all now d args ps :
  args <> [] -> pairs_of args = Some ps ->
  let d' := fst (cmd_mset now d args) in
  snd (cmd_mset now d args) = ok /\
  (forall ps1 k v ps2, ps = ps1 ++ (k, v) :: ps2 -> ~ In k (map fst ps2) ->
     exists e, lookup now d' k = Some e /\ e_val e = VStr v /\ e_exp e = None) /\
  (forall k', ~ In k' (map fst ps) -> lookup now d' k' = lookup now d k').
Proof.
  intros Hne Hp. cbv zeta. unfold cmd_mset. destruct args as [|a0 args0]; [congruence|]. rewrite Hp.
  cbn [fst snd]. split; [reflexivity|]. split.
  - intros ps1 k v ps2 -> Hn. apply (mset_fold_last now ps1 ps2 k v d Hn).
  - intros k' Hn. apply (mset_fold_other now ps d k' Hn).
Qed.
Print Assumptions mset_all.

(* DECRBY with the decrement LLONG_MIN: -decrement is not representable, so the command is
   refused up front and changes nothing (Redis 7 decrbyCommand: "decrement would overflow").
   The Go code used to negate in int64 (wrapping back to LLONG_MIN) and succeed; it was repaired
   together with this model ("fix: DECRBY of the most negative integer is refused"). *)
Theorem decrby_min_i64_refused now d k nb :
  parse_i64 nb = Some min_i64 ->
  (exists s, snd (cmd_incrby (-1) now d [k; nb]) = RErr s) /\ fst (cmd_incrby (-1) now d [k; nb]) = d.
Proof.
  intros Hp. unfold cmd_incrby. rewrite Hp. cbn [Z.eqb andb]. rewrite Z.eqb_refl.
  split; [eexists; reflexivity | reflexivity].
Qed.
Print Assumptions decrby_min_i64_refused.

Example decrby_min_ex :
  let d := fst (cmd_set 0 empty_db [s2b "k"%string; s2b "5"%string]) in
  exists s, snd (cmd_incrby (-1) 0 d [s2b "k"%string; s2b "-9223372036854775808"%string]) = RErr s.
Proof. eexists. vm_compute. reflexivity. Qed.

(* APPEND keeps the deadline and replies the new length; STRLEN/GET read the string *)
Theorem cmd_append_spec now d k v :
  match lookup now d k with
  | Some e => forall b, e_val e = VStr b ->
       cmd_append now d [k; v] = (put d k (VStr (b ++ v)) (e_exp e), RInt (Zlen b + Zlen v))
  | None => cmd_append now d [k; v] = (put d k (VStr v) None, RInt (Zlen v))
  end.
Proof.
  unfold cmd_append, str_of. destruct (lookup now d k) as [e|]; [|reflexivity].
  intros b Hb. rewrite Hb. unfold Zlen. rewrite app_length, Nat2Z.inj_add. reflexivity.
Qed.
Print Assumptions cmd_append_spec.

Theorem cmd_get_spec now d k :
  cmd_get now d [k] =
  (d, match lookup now d k with
      | Some e => match e_val e with VStr b => RBulk b | _ => wrongtype end
      | None => RNil
      end).
Proof.
  unfold cmd_get, str_of. destruct (lookup now d k) as [e|]; [|reflexivity].
  destruct (e_val e); reflexivity.
Qed.
Print Assumptions cmd_get_spec.

Theorem cmd_strlen_spec now d k :
  cmd_strlen now d [k] =
  (d, match lookup now d k with
      | Some e => match e_val e with VStr b => RInt (Zlen b) | _ => wrongtype end
      | None => RInt 0
      end).
Proof.
  unfold cmd_strlen, str_of. destruct (lookup now d k) as [e|]; [|reflexivity].
  destruct (e_val e); reflexivity.
Qed.
Print Assumptions cmd_strlen_spec.

(* SETNX is the one-pair case of MSETNX *)
Theorem cmd_setnx_spec now d k v :
  cmd_setnx now d [k; v] =
  match lookup now d k with
  | Some _ => (d, RInt 0)
  | None => (put d k (VStr v) None, RInt 1)
  end.
Proof. reflexivity. Qed.
Print Assumptions cmd_setnx_spec.

Theorem setnx_is_msetnx now d k v : cmd_setnx now d [k; v] = cmd_msetnx now d [k; v].
Proof.
  unfold cmd_setnx, cmd_msetnx. cbn [pairs_of existsb fst snd fold_left orb].
  destruct (lookup now d k); reflexivity.
Qed.
Print Assumptions setnx_is_msetnx.

(* GETDEL removes exactly a string key and returns its value *)
Theorem cmd_getdel_spec now d k e b :
  lookup now d k = Some e -> e_val e = VStr b ->
  cmd_getdel now d [k] = (del d k, RBulk b) /\ lookup now (del d k) k = None.
Proof.
  intros Hl Hb. unfold cmd_getdel, str_of. rewrite Hl, Hb. split; [reflexivity|apply lookup_del_same].
Qed.
Print Assumptions cmd_getdel_spec.
