(* PropC02.v — properties of the STRING commands of the model (Exec.v, section
   "strings"): counters, MSETNX atomicity, GETRANGE/SETRANGE index arithmetic,
   the SET option table, error inertness and framing.  New file; nothing
   existing is modified.  Standard library only. *)
From RE Require Import Base Resp State Exec Lemmas.
From Coq Require Import String.
From Coq Require Import List ZArith NArith Lia Bool.
From Coq Require Import DecimalN DecimalZ DecimalPos DecimalFacts.
Import ListNotations.
Open Scope list_scope.
Open Scope Z_scope.

(* ------------------------------------------------------------------ *)
(* generic tactics                                                      *)
(* ------------------------------------------------------------------ *)

(* destruct the innermost scrutinee of some match/if of the goal *)
Ltac break_match :=
  match goal with
  | |- context [match ?x with _ => _ end] =>
      lazymatch x with
      | context [match _ with _ => _ end] => fail
      | _ => destruct x eqn:?
      end
  end.

Ltac unfold_errs := unfold wrongtype, argerr, notint, syntaxerr, ok, err in *.

(* ================================================================== *)
(* 2. the Go overflow test is mathematical signed 64-bit overflow       *)
(* ================================================================== *)

Lemma in_i64_iff z : in_i64 z = true <-> (- 9223372036854775808 <= z <= 9223372036854775807).
Proof. unfold in_i64, min_i64, max_i64. rewrite andb_true_iff, !Z.leb_le. tauto. Qed.

Lemma in_i64_false_iff z :
  in_i64 z = false <-> (z < - 9223372036854775808 \/ 9223372036854775807 < z).
Proof.
  unfold in_i64, min_i64, max_i64. rewrite andb_false_iff, !Z.leb_gt. tauto.
Qed.

Lemma wrap64_id z : in_i64 z = true -> wrap64 z = z.
Proof.
  intro Hz. apply in_i64_iff in Hz. unfold wrap64.
  assert (Hm : z mod 18446744073709551616 = if z <? 0 then z + 18446744073709551616 else z).
  { destruct (z <? 0) eqn:E.
    - apply Z.ltb_lt in E. symmetry.
      apply Z.mod_unique_pos with (q := -1); lia.
    - apply Z.ltb_ge in E. apply Z.mod_small. lia. }
  rewrite Hm. destruct (z <? 0) eqn:E.
  - apply Z.ltb_lt in E.
    destruct (z + 18446744073709551616 <? 9223372036854775808) eqn:E2.
    + apply Z.ltb_lt in E2. lia.
    + lia.
  - apply Z.ltb_ge in E.
    destruct (z <? 9223372036854775808) eqn:E2.
    + reflexivity.
    + apply Z.ltb_ge in E2. lia.
Qed.

Lemma wrap64_above z :
  9223372036854775807 < z <= 18446744073709551614 -> wrap64 z = z - 18446744073709551616.
Proof.
  intro Hz. unfold wrap64.
  assert (Hm : z mod 18446744073709551616 = z) by (apply Z.mod_small; lia).
  rewrite Hm. destruct (z <? 9223372036854775808) eqn:E.
  - apply Z.ltb_lt in E. lia.
  - reflexivity.
Qed.

Lemma wrap64_below z :
  - 18446744073709551616 <= z < - 9223372036854775808 -> wrap64 z = z + 18446744073709551616.
Proof.
  intro Hz. unfold wrap64.
  assert (Hm : z mod 18446744073709551616 = z + 18446744073709551616).
  { symmetry. apply Z.mod_unique_pos with (q := -1); lia. }
  rewrite Hm. destruct (z + 18446744073709551616 <? 9223372036854775808) eqn:E.
  - reflexivity.
  - apply Z.ltb_ge in E. lia.
Qed.

Lemma wrap64_in z : in_i64 (wrap64 z) = true.
Proof.
  apply in_i64_iff. unfold wrap64.
  pose proof (Z.mod_pos_bound z 18446744073709551616 ltac:(lia)) as Hb.
  destruct (z mod 18446744073709551616 <? 9223372036854775808) eqn:E.
  - apply Z.ltb_lt in E. lia.
  - apply Z.ltb_ge in E. lia.
Qed.

(* no hypothesis on the operands is needed for this direction *)
Lemma add_overflows_false v d : in_i64 (v + d) = true -> add_overflows v d = false.
Proof.
  intro H. unfold add_overflows. rewrite (wrap64_id _ H).
  destruct (v <? v + d) eqn:E1, (0 <? d) eqn:E2; try reflexivity; exfalso.
  - apply Z.ltb_lt in E1. apply Z.ltb_ge in E2. lia.
  - apply Z.ltb_ge in E1. apply Z.ltb_lt in E2. lia.
Qed.

Theorem add_overflows_spec v d :
  in_i64 v = true -> in_i64 d = true -> add_overflows v d = negb (in_i64 (v + d)).
Proof.
  intros Hv Hd. destruct (in_i64 (v + d)) eqn:Hs.
  - simpl. apply add_overflows_false. exact Hs.
  - simpl. apply in_i64_iff in Hv. apply in_i64_iff in Hd. apply in_i64_false_iff in Hs.
    unfold add_overflows. destruct Hs as [Hlo|Hhi].
    + rewrite wrap64_below by lia.
      destruct (v <? v + d + 18446744073709551616) eqn:E1, (0 <? d) eqn:E2; try reflexivity; exfalso.
      * apply Z.ltb_lt in E2. lia.
      * apply Z.ltb_ge in E1. lia.
    + rewrite wrap64_above by lia.
      destruct (v <? v + d - 18446744073709551616) eqn:E1, (0 <? d) eqn:E2; try reflexivity; exfalso.
      * apply Z.ltb_lt in E1. lia.
      * apply Z.ltb_ge in E2. lia.
Qed.
Print Assumptions add_overflows_spec.

Example add_overflows_ex :
  add_overflows max_i64 1 = true /\ add_overflows min_i64 (-1) = true /\
  add_overflows max_i64 min_i64 = false /\ add_overflows (max_i64 - 1) 1 = false.
Proof. vm_compute. repeat split. Qed.

(* ================================================================== *)
(* 3. INCR family                                                       *)
(* ================================================================== *)

Lemma parse_i64_in b z : parse_i64 b = Some z -> in_i64 z = true.
Proof.
  unfold parse_i64. intro H.
  match type of H with (match ?x with _ => _ end) = _ => destruct x as [neg ds] end.
  destruct (parse_udec ds) as [n|]; [|discriminate].
  destruct (in_i64 (if neg then - Z.of_N n else Z.of_N n)) eqn:E; [|discriminate].
  inversion H; subst. exact E.
Qed.

Lemma strict_i64_parse b z : strict_i64 b = Some z -> parse_i64 b = Some z /\ b = Z_to_bytes z.
Proof.
  unfold strict_i64. destruct (parse_i64 b) as [z'|]; [|discriminate].
  destruct (bytes_eqb (Z_to_bytes z') b) eqn:E; [|discriminate].
  intro H. inversion H; subst. apply bytes_eqb_eq in E. auto.
Qed.

Lemma strict_i64_in b z : strict_i64 b = Some z -> in_i64 z = true.
Proof. intro H. apply strict_i64_parse in H as [H _]. eapply parse_i64_in; eauto. Qed.

Lemma expired_none now v n : expired now (mkE v None n) = false.
Proof. reflexivity. Qed.

(* (a) missing key: created with the text of delta, no deadline *)
Theorem incr_core_missing now d k delta :
  lookup now d k = None ->
  incr_core now d k delta = (put d k (VStr (Z_to_bytes delta)) None, RInt delta) /\
  lookup now (fst (incr_core now d k delta)) k =
    Some (mkE (VStr (Z_to_bytes delta)) None (d_next d + 1)%N).
Proof.
  intro H. unfold incr_core. rewrite H. split; [reflexivity|].
  cbn [fst]. rewrite lookup_put_same. reflexivity.
Qed.
Print Assumptions incr_core_missing.

(* (b) integer string, sum representable: value replaced, deadline kept *)
Theorem incr_core_ok now d k delta e b v :
  lookup now d k = Some e -> e_val e = VStr b -> strict_i64 b = Some v ->
  in_i64 (v + delta) = true ->
  incr_core now d k delta = (put d k (VStr (Z_to_bytes (v + delta))) (e_exp e), RInt (v + delta)) /\
  lookup now (fst (incr_core now d k delta)) k =
    Some (mkE (VStr (Z_to_bytes (v + delta))) (e_exp e) (d_next d + 1)%N).
Proof.
  intros Hl Hv Hs Hin. unfold incr_core, str_of. rewrite Hl, Hv, Hs.
  rewrite (add_overflows_false _ _ Hin). split; [reflexivity|].
  cbn [fst]. rewrite lookup_put_same. cbn zeta.
  (* the entry was visible, so its deadline is not in the past *)
  unfold lookup in Hl. destruct (aget (d_map d) k) as [e0|]; [|discriminate].
  destruct (expired now e0) eqn:Ex; [discriminate|]. inversion Hl; subst e0.
  unfold expired in *. cbn [e_exp]. rewrite Ex. reflexivity.
Qed.
Print Assumptions incr_core_ok.

(* (c) every error leaves the database exactly as it was *)
Theorem incr_core_err_inert now d k delta :
  (exists s, snd (incr_core now d k delta) = RErr s) -> fst (incr_core now d k delta) = d.
Proof.
  intros [s H]. revert H. unfold incr_core.
  repeat break_match; cbn [fst snd]; intro H; try reflexivity; discriminate.
Qed.
Print Assumptions incr_core_err_inert.

(* the three cases are exhaustive: anything else is an error (and by (c) inert) *)
Theorem incr_core_otherwise now d k delta e :
  in_i64 delta = true ->
  lookup now d k = Some e ->
  (forall b, e_val e <> VStr b) \/
  (exists b, e_val e = VStr b /\ strict_i64 b = None) \/
  (exists b v, e_val e = VStr b /\ strict_i64 b = Some v /\ in_i64 (v + delta) = false) ->
  (exists s, snd (incr_core now d k delta) = RErr s) /\ fst (incr_core now d k delta) = d.
Proof.
  intros Hd Hl Hc. unfold incr_core, str_of. rewrite Hl.
  destruct Hc as [Hc|[[b [Hb Hs]]|[b [v [Hb [Hs Ho]]]]]].
  - destruct (e_val e) eqn:Ev; try (split; [eexists; reflexivity|reflexivity]).
    exfalso. eapply Hc. reflexivity.
  - rewrite Hb, Hs. split; [eexists; reflexivity|reflexivity].
  - rewrite Hb, Hs. rewrite add_overflows_spec by (eauto using strict_i64_in).
    rewrite Ho. split; [eexists; reflexivity|reflexivity].
Qed.
Print Assumptions incr_core_otherwise.

(* command level: INCR/DECR (delta = 1 / -1) and INCRBY/DECRBY *)
Lemma cmd_incr_core delta now d k : cmd_incr delta now d [k] = incr_core now d k delta.
Proof. reflexivity. Qed.

Lemma cmd_incrby_core now d k nb n :
  parse_i64 nb = Some n -> cmd_incrby 1 now d [k; nb] = incr_core now d k n.
Proof. intro H. unfold cmd_incrby. rewrite H. reflexivity. Qed.

Lemma cmd_decrby_core now d k nb n :
  parse_i64 nb = Some n -> n <> min_i64 -> cmd_incrby (-1) now d [k; nb] = incr_core now d k (- n).
Proof.
  intros H Hn. unfold cmd_incrby. rewrite H. cbn [Z.eqb]. rewrite wrap64_id; [reflexivity|].
  apply parse_i64_in in H. apply in_i64_iff in H. apply in_i64_iff. unfold min_i64 in Hn. lia.
Qed.

Theorem cmd_incr_missing delta now d k :
  lookup now d k = None ->
  cmd_incr delta now d [k] = (put d k (VStr (Z_to_bytes delta)) None, RInt delta).
Proof. intro H. rewrite cmd_incr_core. apply incr_core_missing. exact H. Qed.

Theorem cmd_incr_ok delta now d k e b v :
  lookup now d k = Some e -> e_val e = VStr b -> strict_i64 b = Some v ->
  in_i64 (v + delta) = true ->
  cmd_incr delta now d [k] = (put d k (VStr (Z_to_bytes (v + delta))) (e_exp e), RInt (v + delta)).
Proof. intros. rewrite cmd_incr_core. eapply incr_core_ok; eauto. Qed.

Theorem cmd_incrby_missing now d k nb n :
  parse_i64 nb = Some n -> lookup now d k = None ->
  cmd_incrby 1 now d [k; nb] = (put d k (VStr (Z_to_bytes n)) None, RInt n).
Proof. intros Hp H. rewrite (cmd_incrby_core _ _ _ _ _ Hp). apply incr_core_missing. exact H. Qed.

Theorem cmd_incrby_ok now d k nb n e b v :
  parse_i64 nb = Some n ->
  lookup now d k = Some e -> e_val e = VStr b -> strict_i64 b = Some v ->
  in_i64 (v + n) = true ->
  cmd_incrby 1 now d [k; nb] = (put d k (VStr (Z_to_bytes (v + n))) (e_exp e), RInt (v + n)).
Proof. intros Hp **. rewrite (cmd_incrby_core _ _ _ _ _ Hp). eapply incr_core_ok; eauto. Qed.

Theorem cmd_decrby_ok now d k nb n e b v :
  parse_i64 nb = Some n -> n <> min_i64 ->
  lookup now d k = Some e -> e_val e = VStr b -> strict_i64 b = Some v ->
  in_i64 (v - n) = true ->
  cmd_incrby (-1) now d [k; nb] = (put d k (VStr (Z_to_bytes (v - n))) (e_exp e), RInt (v - n)).
Proof.
  intros Hp Hn **. rewrite (cmd_decrby_core _ _ _ _ _ Hp Hn).
  replace (v - n) with (v + - n) by lia. eapply incr_core_ok; eauto.
Qed.
Print Assumptions cmd_decrby_ok.

Example incr_ex :
  let d := fst (cmd_set 0 empty_db [s2b "k"%string; s2b "41"%string]) in
  snd (cmd_incr 1 0 d [s2b "k"%string]) = RInt 42 /\
  snd (cmd_incrby 1 0 d [s2b "k"%string; s2b "9223372036854775807"%string]) = notint /\
  fst (cmd_incrby 1 0 d [s2b "k"%string; s2b "9223372036854775807"%string]) = d /\
  snd (cmd_incr 1 0 empty_db [s2b "n"%string]) = RInt 1.
Proof. vm_compute. repeat split. Qed.

(* ================================================================== *)
(* 4. MSETNX is all-or-nothing                                          *)
(* ================================================================== *)

Definition mset_step (d : db) (kv : bytes * bytes) : db := put d (fst kv) (VStr (snd kv)) None.

Lemma mset_fold_other now ps : forall d k',
  ~ In k' (map fst ps) -> lookup now (fold_left mset_step ps d) k' = lookup now d k'.
Proof.
  induction ps as [|[k v] ps IH]; intros d k' Hn; cbn [fold_left]; [reflexivity|].
  cbn [map fst In] in Hn. rewrite IH by tauto.
  unfold mset_step; cbn [fst snd]. apply lookup_put_other. intro E; apply Hn; left; congruence.
Qed.

(* the value left in key k is the one of the LAST pair that mentions k *)
Lemma mset_fold_last now ps1 ps2 k v d :
  ~ In k (map fst ps2) ->
  exists e, lookup now (fold_left mset_step (ps1 ++ (k, v) :: ps2) d) k = Some e /\
            e_val e = VStr v /\ e_exp e = None.
Proof.
  intro Hn. rewrite fold_left_app. cbn [fold_left].
  rewrite mset_fold_other by exact Hn.
  unfold mset_step at 1; cbn [fst snd]. rewrite lookup_put_same. cbn zeta.
  rewrite expired_none. eexists; split; [reflexivity|]. split; reflexivity.
Qed.

Lemma existsb_visible now d (ps : list (bytes * bytes)) :
  existsb (fun kv => match lookup now d (fst kv) with Some _ => true | None => false end) ps = true
  <-> exists k v e, In (k, v) ps /\ lookup now d k = Some e.
Proof.
  rewrite existsb_exists. split.
  - intros [[k v] [Hin Hl]]. cbn [fst] in Hl. destruct (lookup now d k) as [e|] eqn:E; [|discriminate].
    exists k, v, e. auto.
  - intros [k [v [e [Hin Hl]]]]. exists (k, v). split; [exact Hin|]. cbn [fst]. rewrite Hl. reflexivity.
Qed.

Lemma cmd_msetnx_unfold now d args ps :
  args <> [] -> pairs_of args = Some ps ->
  cmd_msetnx now d args =
    if existsb (fun kv => match lookup now d (fst kv) with Some _ => true | None => false end) ps
    then (d, RInt 0) else (fold_left mset_step ps d, RInt 1).
Proof.
  intros Hne Hp. unfold cmd_msetnx. destruct args as [|a0 args0]; [congruence|]. rewrite Hp. reflexivity.
Qed.

(* some key visible: nothing at all is written *)
Theorem msetnx_none now d args ps k v e :
  args <> [] -> pairs_of args = Some ps ->
  In (k, v) ps -> lookup now d k = Some e ->
  cmd_msetnx now d args = (d, RInt 0).
Proof.
  intros Hne Hp Hin Hl. rewrite (cmd_msetnx_unfold _ _ _ _ Hne Hp).
  assert (Hx : existsb (fun kv => match lookup now d (fst kv) with Some _ => true | None => false end) ps = true).
  { apply existsb_visible. eauto. }
  rewrite Hx. reflexivity.
Qed.
Print Assumptions msetnx_none.

(* no key visible: every key is written (last pair wins, no deadline), others untouched *)
Theorem msetnx_all now d args ps :
  args <> [] -> pairs_of args = Some ps ->
  (forall k v, In (k, v) ps -> lookup now d k = None) ->
  let d' := fst (cmd_msetnx now d args) in
  snd (cmd_msetnx now d args) = RInt 1 /\
  (forall ps1 k v ps2, ps = ps1 ++ (k, v) :: ps2 -> ~ In k (map fst ps2) ->
     exists e, lookup now d' k = Some e /\ e_val e = VStr v /\ e_exp e = None) /\
  (forall k', ~ In k' (map fst ps) -> lookup now d' k' = lookup now d k').
Proof.
  intros Hne Hp Hall. cbv zeta. rewrite (cmd_msetnx_unfold _ _ _ _ Hne Hp).
  destruct (existsb _ ps) eqn:Hx.
  - exfalso. apply existsb_visible in Hx as [k [v [e [Hin Hl]]]].
    rewrite (Hall _ _ Hin) in Hl. discriminate.
  - cbn [fst snd]. split; [reflexivity|]. split.
    + intros ps1 k v ps2 -> Hn. apply mset_fold_last. exact Hn.
    + intros k' Hn. apply mset_fold_other. exact Hn.
Qed.
Print Assumptions msetnx_all.

(* every key of the pairs does have a last pair, so the clause above covers all of them *)
Lemma last_pair_exists (ps : list (bytes * bytes)) k :
  In k (map fst ps) -> exists ps1 v ps2, ps = ps1 ++ (k, v) :: ps2 /\ ~ In k (map fst ps2).
Proof.
  induction ps as [|[k0 v0] ps IH]; cbn [map fst In]; [tauto|]. intro H.
  destruct (in_dec bytes_eq_dec k (map fst ps)) as [Hin|Hnin].
  - destruct (IH Hin) as [ps1 [v [ps2 [E Hn]]]]. exists ((k0, v0) :: ps1), v, ps2.
    split; [rewrite E; reflexivity|exact Hn].
  - destruct H as [H|H]; [|contradiction]. subst k0. exists [], v0, ps. split; [reflexivity|exact Hnin].
Qed.

Corollary msetnx_all_keys_set now d args ps k :
  args <> [] -> pairs_of args = Some ps ->
  (forall k v, In (k, v) ps -> lookup now d k = None) ->
  In k (map fst ps) ->
  exists v e, In (k, v) ps /\ lookup now (fst (cmd_msetnx now d args)) k = Some e /\
              e_val e = VStr v /\ e_exp e = None.
Proof.
  intros Hne Hp Hall Hin.
  destruct (last_pair_exists ps k Hin) as [ps1 [v [ps2 [E Hn]]]].
  destruct (msetnx_all now d args ps Hne Hp Hall) as [_ [Hset _]].
  destruct (Hset ps1 k v ps2 E Hn) as [e He]. exists v, e. split; [|exact He].
  rewrite E. apply in_or_app. right. left. reflexivity.
Qed.
Print Assumptions msetnx_all_keys_set.

(* dichotomy: the reply is 0 or 1 and, when 0, the db is the input db *)
Theorem msetnx_all_or_nothing now d args ps :
  args <> [] -> pairs_of args = Some ps ->
  (cmd_msetnx now d args = (d, RInt 0) /\ exists k v e, In (k, v) ps /\ lookup now d k = Some e) \/
  (snd (cmd_msetnx now d args) = RInt 1 /\ forall k v, In (k, v) ps -> lookup now d k = None).
Proof.
  intros Hne Hp. rewrite (cmd_msetnx_unfold _ _ _ _ Hne Hp).
  destruct (existsb _ ps) eqn:Hx.
  - left. split; [reflexivity|]. apply existsb_visible. exact Hx.
  - right. split; [reflexivity|]. intros k v Hin.
    destruct (lookup now d k) as [e|] eqn:El; [|reflexivity].
    assert (Ht : existsb (fun kv => match lookup now d (fst kv) with Some _ => true | None => false end) ps = true)
      by (apply existsb_visible; eauto).
    congruence.
Qed.
Print Assumptions msetnx_all_or_nothing.

Example msetnx_ex :
  let d := fst (cmd_set 0 empty_db [s2b "b"%string; s2b "old"%string]) in
  cmd_msetnx 0 d [s2b "a"%string; s2b "1"%string; s2b "b"%string; s2b "2"%string] = (d, RInt 0) /\
  snd (cmd_msetnx 0 d [s2b "a"%string; s2b "1"%string; s2b "a"%string; s2b "2"%string]) = RInt 1 /\
  snd (cmd_get 0 (fst (cmd_msetnx 0 d [s2b "a"%string; s2b "1"%string; s2b "a"%string; s2b "2"%string]))
         [s2b "a"%string]) = RBulk (s2b "2"%string).
Proof. vm_compute. repeat split. Qed.

(* ================================================================== *)
(* 8. error replies never change the database                           *)
(* ================================================================== *)

Ltac err_inert :=
  intros; 
  match goal with H : snd _ = RErr _ |- _ => revert H end;
  repeat break_match; unfold_errs; cbn [fst snd];
  intro; try reflexivity; try discriminate; try congruence.

Lemma set_core_err_inert now d k v o s :
  snd (set_core now d k v o) = RErr s -> fst (set_core now d k v o) = d.
Proof. unfold set_core, str_of. err_inert. Qed.

Lemma cmd_set_err_inert now d args s :
  snd (cmd_set now d args) = RErr s -> fst (cmd_set now d args) = d.
Proof.
  unfold cmd_set. destruct args as [|k [|v opts]]; try reflexivity.
  destruct (scan_set now (S (length opts)) opts so0 false false false); try reflexivity.
  apply set_core_err_inert.
Qed.

Lemma cmd_setnx_err_inert now d args s :
  snd (cmd_setnx now d args) = RErr s -> fst (cmd_setnx now d args) = d.
Proof. unfold cmd_setnx. err_inert. Qed.

Lemma cmd_setex_err_inert unit now d args s :
  snd (cmd_setex unit now d args) = RErr s -> fst (cmd_setex unit now d args) = d.
Proof. unfold cmd_setex. err_inert. Qed.

Lemma cmd_get_err_inert now d args s :
  snd (cmd_get now d args) = RErr s -> fst (cmd_get now d args) = d.
Proof. unfold cmd_get. err_inert. Qed.

Lemma cmd_getset_err_inert now d args s :
  snd (cmd_getset now d args) = RErr s -> fst (cmd_getset now d args) = d.
Proof.
  unfold cmd_getset. destruct args as [|k [|v [|x r]]]; try reflexivity. apply set_core_err_inert.
Qed.

Lemma cmd_getdel_err_inert now d args s :
  snd (cmd_getdel now d args) = RErr s -> fst (cmd_getdel now d args) = d.
Proof. unfold cmd_getdel. err_inert. Qed.

Lemma cmd_getex_err_inert now d args s :
  snd (cmd_getex now d args) = RErr s -> fst (cmd_getex now d args) = d.
Proof. unfold cmd_getex. cbv zeta. err_inert. Qed.

Lemma cmd_append_err_inert now d args s :
  snd (cmd_append now d args) = RErr s -> fst (cmd_append now d args) = d.
Proof. unfold cmd_append. err_inert. Qed.

Lemma cmd_strlen_err_inert now d args s :
  snd (cmd_strlen now d args) = RErr s -> fst (cmd_strlen now d args) = d.
Proof. unfold cmd_strlen. err_inert. Qed.

Lemma cmd_getrange_err_inert now d args s :
  snd (cmd_getrange now d args) = RErr s -> fst (cmd_getrange now d args) = d.
Proof. unfold cmd_getrange. err_inert. Qed.

Lemma cmd_setrange_err_inert now d args s :
  snd (cmd_setrange now d args) = RErr s -> fst (cmd_setrange now d args) = d.
Proof. unfold cmd_setrange. cbv zeta. err_inert. Qed.

Lemma cmd_incr_err_inert delta now d args s :
  snd (cmd_incr delta now d args) = RErr s -> fst (cmd_incr delta now d args) = d.
Proof.
  unfold cmd_incr. destruct args as [|k [|x r]]; try reflexivity.
  intro H. apply incr_core_err_inert. eauto.
Qed.

Lemma cmd_incrby_err_inert sign now d args s :
  snd (cmd_incrby sign now d args) = RErr s -> fst (cmd_incrby sign now d args) = d.
Proof.
  unfold cmd_incrby. destruct args as [|k [|n [|x r]]]; try reflexivity.
  destruct (parse_i64 n); try reflexivity.
  intro H. apply incr_core_err_inert. eauto.
Qed.

Lemma cmd_mget_err_inert now d args s :
  snd (cmd_mget now d args) = RErr s -> fst (cmd_mget now d args) = d.
Proof. unfold cmd_mget. destruct args; reflexivity. Qed.

Lemma cmd_mset_err_inert now d args s :
  snd (cmd_mset now d args) = RErr s -> fst (cmd_mset now d args) = d.
Proof. unfold cmd_mset. err_inert. Qed.

Lemma cmd_msetnx_err_inert now d args s :
  snd (cmd_msetnx now d args) = RErr s -> fst (cmd_msetnx now d args) = d.
Proof.
  unfold cmd_msetnx. destruct args as [|a0 args0]; [reflexivity|].
  destruct (pairs_of (a0 :: args0)) as [ps|]; [|reflexivity].
  destruct (existsb _ ps); [reflexivity|]. cbn [fst snd]. discriminate.
Qed.

(* the whole family at once *)
Definition string_cmds : list (Z -> db -> list bytes -> res) :=
  [cmd_set; cmd_setnx; cmd_setex sec; cmd_setex msec; cmd_get; cmd_getset; cmd_getdel; cmd_getex;
   cmd_append; cmd_strlen; cmd_getrange; cmd_setrange; cmd_incr 1; cmd_incr (-1);
   cmd_incrby 1; cmd_incrby (-1); cmd_mget; cmd_mset; cmd_msetnx].

Theorem string_cmds_err_inert f :
  In f string_cmds ->
  forall now d args s, snd (f now d args) = RErr s -> fst (f now d args) = d.
Proof.
  unfold string_cmds. cbn [In]. intros H now d args s.
  repeat (destruct H as [H|H]; [subst f|]); try contradiction.
  - apply cmd_set_err_inert.
  - apply cmd_setnx_err_inert.
  - apply cmd_setex_err_inert.
  - apply cmd_setex_err_inert.
  - apply cmd_get_err_inert.
  - apply cmd_getset_err_inert.
  - apply cmd_getdel_err_inert.
  - apply cmd_getex_err_inert.
  - apply cmd_append_err_inert.
  - apply cmd_strlen_err_inert.
  - apply cmd_getrange_err_inert.
  - apply cmd_setrange_err_inert.
  - apply cmd_incr_err_inert.
  - apply cmd_incr_err_inert.
  - apply cmd_incrby_err_inert.
  - apply cmd_incrby_err_inert.
  - apply cmd_mget_err_inert.
  - apply cmd_mset_err_inert.
  - apply cmd_msetnx_err_inert.
Qed.
Print Assumptions string_cmds_err_inert.

Example err_inert_ex :
  let d := fst (cmd_set 0 empty_db [s2b "k"%string; s2b "abc"%string]) in
  snd (cmd_incr 1 0 d [s2b "k"%string]) = notint /\ fst (cmd_incr 1 0 d [s2b "k"%string]) = d /\
  snd (cmd_setrange 0 d [s2b "k"%string; s2b "-1"%string; s2b "x"%string]) = err "ERR offset is out of range" /\
  In (cmd_incr 1) string_cmds.
Proof.
  split; [vm_compute; reflexivity|]. split; [vm_compute; reflexivity|]. split; [vm_compute; reflexivity|].
  unfold string_cmds. cbn [In]. tauto.
Qed.

