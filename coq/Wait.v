(* Wait.v — the block/wake protocol of the blocking list commands as a labelled
   transition system (redisList.go: blockOnListChangeWorker; waitTable.go;
   dataStore.go: enterListBlock / reenterListBlock / leaveListBlock; the pushes'
   unlockAndUnblock). Each label is one atomic region of the Go code (one lock
   section or one channel operation); any number of clients, keys and steps. *)
From RE Require Import Base.
From Coq Require Import List.
Open Scope list_scope.

Definition cid := N.
Definition key := bytes.
Definition elem := bytes.

(* where a blocked client is in blockOnListChangeWorker *)
Inductive pc :=
| Idle                         (* not in a blocking command *)
| Registered (ks : list key)   (* registered, about to try again (second op()) *)
| Waiting (ks : list key)      (* in select: waits for a token, the timer or an unblock request *)
| Woken (ks : list key)        (* consumed its token, about to retry *)
| Finished (r : option (key * elem)). (* replied: an element, or nil (timeout / unblock) *)

Record cfg := mkCfg {
  lists : list (key * list elem);   (* list contents, head first; absent = empty *)
  queues : list (key * list cid);   (* wait table: FIFO of waiting clients per key; absent = empty *)
  tokens : list cid;                (* clients whose "ready" channel holds a token *)
  pcs : list (cid * pc);
  pushed : list elem;               (* history: every element ever pushed *)
  popped : list elem                (* history: every element handed to a consumer (blocking or not) *)
}.

Definition cfg0 : cfg := mkCfg [] [] [] [] [] [].

Fixpoint nget {A} (m : list (N * A)) (k : N) : option A :=
  match m with [] => None | (k', v) :: r => if N.eqb k k' then Some v else nget r k end.
Fixpoint nset {A} (m : list (N * A)) (k : N) (v : A) : list (N * A) :=
  match m with
  | [] => [(k, v)]
  | (k', v') :: r => if N.eqb k k' then (k, v) :: r else (k', v') :: nset r k v
  end.

Definition list_of (c : cfg) (k : key) : list elem := match aget (lists c) k with Some l => l | None => [] end.
Definition queue_of (c : cfg) (k : key) : list cid := match aget (queues c) k with Some q => q | None => [] end.
Definition pc_of (c : cfg) (i : cid) : pc := match nget (pcs c) i with Some p => p | None => Idle end.

Definition set_list (ls : list (key * list elem)) (k : key) (l : list elem) :=
  match l with [] => adel ls k | _ => aset ls k l end.
Definition set_queue (qs : list (key * list cid)) (k : key) (q : list cid) :=
  match q with [] => adel qs k | _ => aset qs k q end.

Definition remove_cid (i : cid) (q : list cid) : list cid := filter (fun j => negb (N.eqb i j)) q.

(* unlinkWakeSignal: take client i out of every queue *)
Definition unlink (qs : list (key * list cid)) (i : cid) : list (key * list cid) :=
  filter (fun kq => match snd kq with [] => false | _ => true end)
         (map (fun kq => (fst kq, remove_cid i (snd kq))) qs).

(* waitTable.unblock(name, n): wake the first n clients queued on k — each is removed from
   ALL its queues and gets one token *)
Fixpoint unblock (fuel : nat) (qs : list (key * list cid)) (toks : list cid) (k : key) (n : nat)
  : list (key * list cid) * list cid :=
  match fuel, n with
  | O, _ | _, O => (qs, toks)
  | S f, S n' =>
    match aget qs k with
    | Some (i :: _) => unblock f (unlink qs i) (toks ++ [i]) k n'
    | _ => (qs, toks)
    end
  end.

(* joinWaitList at the tail of each queue of ks *)
Definition register (qs : list (key * list cid)) (i : cid) (ks : list key) : list (key * list cid) :=
  fold_left (fun qs k => set_queue qs k ((match aget qs k with Some q => q | None => [] end) ++ [i])) ks qs.

(* the command's non-blocking attempt: first key (in order) with an element *)
Fixpoint first_nonempty (ls : list (key * list elem)) (ks : list key) : option (key * elem * list elem) :=
  match ks with
  | [] => None
  | k :: r => match aget ls k with
              | Some (x :: rest) => Some (k, x, rest)
              | _ => first_nonempty ls r
              end
  end.

(* leaveListBlock: dispose the signal (unlink; an unread token is passed on to one waiter per key),
   then signal the waiters of every key of the leaving client that still holds elements *)
Definition leave (c : cfg) (i : cid) (ks : list key) (ls : list (key * list elem)) : list (key * list cid) * list cid :=
  let qs0 := unlink (queues c) i in
  let had_token := existsb (N.eqb i) (tokens c) in
  let toks0 := remove_cid i (tokens c) in
  let '(qs1, toks1) :=
    if had_token then fold_left (fun st k => unblock (length (pcs c) + 1) (fst st) (snd st) k 1) ks (qs0, toks0)
    else (qs0, toks0) in
  fold_left (fun st k =>
               match aget ls k with
               | Some l => unblock (length (pcs c) + 1) (fst st) (snd st) k (length l)
               | None => st
               end) ks (qs1, toks1).

Inductive label :=
| LPush (k : key) (xs : list elem)        (* RPUSH k xs by any client: append and unblock(k, |xs|) *)
| LSteal (k : key)                        (* a non-blocking consumer takes the head of k (LPOP, LMOVE source, ...) *)
| LStart (i : cid) (ks : list key)        (* blocking command arrives: first attempt; registers when nothing is there *)
| LSecond (i : cid)                       (* the attempt right after registering *)
| LWake (i : cid)                         (* select receives the token *)
| LRetry (i : cid)                        (* the attempt after a wake-up; on failure: register again and look once more *)
| LGiveUp (i : cid)                       (* select takes the timer or an unblock request instead *)
| LReset (i : cid).                       (* the connection issues its next command *)

Definition finish (c : cfg) (i : cid) (ks : list key) (k : key) (x : elem) (rest : list elem) (was_registered : bool) : cfg :=
  let ls := set_list (lists c) k rest in
  let '(qs, toks) := if was_registered then leave c i ks ls else (queues c, tokens c) in
  mkCfg ls qs toks (nset (pcs c) i (Finished (Some (k, x)))) (pushed c) (popped c ++ [x]).

(* one step; None = label not enabled *)
Definition wstep (c : cfg) (l : label) : option cfg :=
  match l with
  | LPush k xs =>
    match xs with
    | [] => None
    | _ =>
      let ls := set_list (lists c) k (list_of c k ++ xs) in
      let '(qs, toks) := unblock (length (pcs c) + 1) (queues c) (tokens c) k (length xs) in
      Some (mkCfg ls qs toks (pcs c) (pushed c ++ xs) (popped c))
    end
  | LSteal k =>
    match list_of c k with
    | x :: rest => Some (mkCfg (set_list (lists c) k rest) (queues c) (tokens c) (pcs c) (pushed c) (popped c ++ [x]))
    | [] => None
    end
  | LStart i ks =>
    match pc_of c i, ks with
    | Idle, _ :: _ =>
      match first_nonempty (lists c) ks with
      | Some (k, x, rest) => Some (finish c i ks k x rest false)
      | None => Some (mkCfg (lists c) (register (queues c) i ks) (tokens c) (nset (pcs c) i (Registered ks)) (pushed c) (popped c))
      end
    | _, _ => None
    end
  | LSecond i =>
    match pc_of c i with
    | Registered ks =>
      match first_nonempty (lists c) ks with
      | Some (k, x, rest) => Some (finish c i ks k x rest true)
      | None => Some (mkCfg (lists c) (queues c) (tokens c) (nset (pcs c) i (Waiting ks)) (pushed c) (popped c))
      end
    | _ => None
    end
  | LWake i =>
    match pc_of c i with
    | Waiting ks =>
      if existsb (N.eqb i) (tokens c)
      then Some (mkCfg (lists c) (queues c) (remove_cid i (tokens c)) (nset (pcs c) i (Woken ks)) (pushed c) (popped c))
      else None
    | _ => None
    end
  | LRetry i =>
    match pc_of c i with
    | Woken ks =>
      match first_nonempty (lists c) ks with
      | Some (k, x, rest) => Some (finish c i ks k x rest true)
      | None =>
        (* register again (at the tail); the look that follows is LSecond *)
        Some (mkCfg (lists c) (register (unlink (queues c) i) i ks) (tokens c) (nset (pcs c) i (Registered ks)) (pushed c) (popped c))
      end
    | _ => None
    end
  | LGiveUp i =>
    match pc_of c i with
    | Waiting ks =>
      let '(qs, toks) := leave c i ks (lists c) in
      Some (mkCfg (lists c) qs toks (nset (pcs c) i (Finished None)) (pushed c) (popped c))
    | _ => None
    end
  | LReset i =>
    match pc_of c i with
    | Finished _ => Some (mkCfg (lists c) (queues c) (tokens c) (nset (pcs c) i Idle) (pushed c) (popped c))
    | _ => None
    end
  end.

Fixpoint wrun (c : cfg) (ls : list label) : option cfg :=
  match ls with
  | [] => Some c
  | l :: r => match wstep c l with Some c' => wrun c' r | None => None end
  end.

Definition reachable (c : cfg) : Prop := exists ls, wrun cfg0 ls = Some c.

(* a client with a wake-up in flight: it holds an unread token, or consumed one and has not retried yet,
   or has registered and not yet looked again *)
Definition inflight (c : cfg) (i : cid) (k : key) : Prop :=
  match pc_of c i with
  | Registered ks => In k ks
  | Waiting ks => In k ks /\ In i (tokens c)
  | Woken ks => In k ks
  | _ => False
  end.

(* nobody has anything left to do except external events (push, steal, timer, new commands) *)
Definition quiescent (c : cfg) : Prop :=
  forall i, match pc_of c i with
            | Registered _ | Woken _ => False
            | Waiting _ => ~ In i (tokens c)
            | _ => True
            end.
