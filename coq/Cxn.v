(* Cxn.v — the event loop of one client connection (clientCxn.go: newClientCxn, run, onInitialize,
   onWaitForCommand, onDispatchCommand, onTerminate, RequestClose, queueStateChange).

   The labels are the schedule points the verif build reports (verifPoint "cxn.*"): each is emitted
   at one program point, those inside the critical sections of cc.mu atomically with the flags
   they describe. The event channel (capacity 3) is modelled as a BAG: two goroutines that queue
   at about the same time may be reported in either order, so the model does not rely on the order
   of the channel — every behaviour of the code is a behaviour of the model, and what is proved
   for all runs of the model holds for the code's. Model only; theorems are in PropC20Cxn.v. *)
From Coq Require Import List Bool Arith.
Import ListNotations.

Inductive ev := EInit | EWait | EDisp | ETerm.

Definition ev_eqb (a b : ev) : bool :=
  match a, b with
  | EInit, EInit | EWait, EWait | EDisp, EDisp | ETerm, ETerm => true
  | _, _ => false
  end.

Inductive lab :=
| LNew                      (* newClientCxn queues csInitialize and starts run() *)
| LTake (e : ev)            (* run(): an event was received from the channel *)
| LQLoop (e : ev)           (* the loop goroutine queues the follow-up event of the handler it runs *)
| LWaitGo                   (* run(), csWaitForCommand: IsCloseRequested() answered false (possibly stale) *)
| LWaitSkip                 (* ... answered true: onWaitForCommand is not entered *)
| LClosingSeen              (* onWaitForCommand under cc.mu: closing is set, no read is started *)
| LSetWaiting               (* onWaitForCommand under cc.mu: waiting := true, the socket read follows *)
| LReadEnd (ok : bool)      (* under cc.mu: waiting := false; ok = the read delivered bytes *)
| LDispDone (ok : bool)     (* the dispatcher goroutine wrote the reply (ok) or failed and closed the socket *)
| LQDisp                    (* the dispatcher goroutine queues csWaitForCommand *)
| LReqClose (w : bool)      (* RequestClose under cc.mu, first call: closing := true, w = waiting (socket
                               closed if set), csTerminate queued *)
| LTerminated.              (* onTerminate has closed the socket, ended a blocked command, unregistered *)

Inductive pcT :=
| PNew                      (* before newClientCxn has queued csInitialize *)
| PIdle                     (* run() waits for an event *)
| PInit                     (* handling csInitialize *)
| PWait0                    (* csWaitForCommand taken, IsCloseRequested not yet reported *)
| PWait1                    (* inside onWaitForCommand before the read *)
| PReading                  (* in cc.cxn.Read with waiting = true *)
| PRead (ok : bool)         (* after the read *)
| PTerm                     (* handling csTerminate *)
| PDone.                    (* run() has returned, cc.done is closed *)

Inductive dT := DNone | DRunning | DWritten.

Record cst := mkC {
  bag : list ev;            (* events queued and not yet received *)
  pc : pcT;
  closing : bool;
  waiting : bool;
  sockclosed : bool;        (* the server side has closed the socket *)
  disp : dT                 (* the dispatcher goroutine of the current command *)
}.

Definition c0 : cst := mkC [] PNew false false false DNone.

Fixpoint take (e : ev) (b : list ev) : option (list ev) :=
  match b with
  | [] => None
  | x :: r => if ev_eqb e x then Some r else option_map (cons x) (take e r)
  end.

Definition set_pc (c : cst) (p : pcT) : cst := mkC (bag c) p (closing c) (waiting c) (sockclosed c) (disp c).
Definition push (c : cst) (e : ev) (p : pcT) : cst := mkC (e :: bag c) p (closing c) (waiting c) (sockclosed c) (disp c).

Definition cstep (c : cst) (l : lab) : option cst :=
  match l with
  | LNew =>
    match pc c with PNew => Some (push c EInit PIdle) | _ => None end
  | LTake e =>
    match pc c, take e (bag c) with
    | PIdle, Some b' =>
      match e with
      | EInit => Some (mkC b' PInit (closing c) (waiting c) (sockclosed c) (disp c))
      | EWait => Some (mkC b' PWait0 (closing c) (waiting c) (sockclosed c) (disp c))
      | EDisp => match disp c with
                 | DNone => Some (mkC b' PIdle (closing c) (waiting c) (sockclosed c) DRunning)
                 | _ => None
                 end
      | ETerm => Some (mkC b' PTerm (closing c) (waiting c) (sockclosed c) (disp c))
      end
    | _, _ => None
    end
  | LQLoop e =>
    match pc c, e with
    | PInit, EWait => Some (push c EWait PIdle)
    | PWait1, EDisp => Some (push c EDisp PIdle)          (* a complete command was already buffered *)
    | PRead true, EWait => Some (push c EWait PIdle)      (* still incomplete *)
    | PRead true, EDisp => Some (push c EDisp PIdle)
    | PRead false, ETerm => Some (push c ETerm PIdle)     (* end of stream or read error *)
    | _, _ => None
    end
  | LWaitGo => match pc c with PWait0 => Some (set_pc c PWait1) | _ => None end
  | LWaitSkip => match pc c with PWait0 => if closing c then Some (set_pc c PIdle) else None | _ => None end
  | LClosingSeen => match pc c with PWait1 => if closing c then Some (set_pc c PIdle) else None | _ => None end
  | LSetWaiting =>
    match pc c with
    | PWait1 => if closing c then None else Some (mkC (bag c) PReading (closing c) true (sockclosed c) (disp c))
    | _ => None
    end
  | LReadEnd ok =>
    match pc c with
    | PReading => Some (mkC (bag c) (PRead ok) (closing c) false (sockclosed c) (disp c))
    | _ => None
    end
  | LDispDone ok =>
    match disp c with
    | DRunning => Some (mkC (bag c) (pc c) (closing c) (waiting c) (if ok then sockclosed c else true) (if ok then DWritten else DNone))
    | _ => None
    end
  | LQDisp =>
    match disp c with
    | DWritten => Some (mkC (EWait :: bag c) (pc c) (closing c) (waiting c) (sockclosed c) DNone)
    | _ => None
    end
  | LReqClose w =>
    if closing c then None else
    if Bool.eqb w (waiting c) then Some (mkC (ETerm :: bag c) (pc c) true (waiting c) (sockclosed c || w) (disp c)) else None
  | LTerminated => match pc c with PTerm => Some (mkC (bag c) PDone (closing c) (waiting c) true (disp c)) | _ => None end
  end.

Fixpoint crun (c : cst) (ls : list lab) : option cst :=
  match ls with
  | [] => Some c
  | l :: r => match cstep c l with Some c' => crun c' r | None => None end
  end.

(* for the correspondence check: the position of the first label the model does not allow *)
Fixpoint first_reject (c : cst) (ls : list lab) (pos : nat) : option nat :=
  match ls with
  | [] => None
  | l :: r => match cstep c l with Some c' => first_reject c' r (S pos) | None => Some pos end
  end.
