(* Dict.v — the one-item-per-bucket dictionary of redisDict.go and the cursor walk
   of dataStoreCommands.go:dictScanUnlocked, mirrored operation by operation.
   The hash function (SipHash in the Go code) is NOT modelled: every operation takes
   the full 64-bit hash of its key as an argument, and the theorems hold for any
   hash function. *)
From RE Require Import Base.
Open Scope N_scope.

(* ---------- 32-bit reversal (math/bits.Reverse32) ---------- *)
Fixpoint rev_bits (n : nat) (x acc : N) : N :=
  match n with
  | O => acc
  | S n' => rev_bits n' (x / 2) (2 * acc + x mod 2)
  end.
Definition rev32 (x : N) : N := rev_bits 32 (x mod 4294967296) 0.

Definition pow2 (k : nat) : N := 2 ^ N.of_nat k.

(* hashToIndex: bucket of a hash in a table of 2^k buckets = bit-reversed low k bits *)
Definition hash_to_index (h : N) (k : nat) : N :=
  rev32 ((h mod pow2 k) * pow2 (32 - k)).

Record item (V : Type) := mkItem { it_hash : N; it_key : bytes; it_val : V }.
Arguments mkItem {V}. Arguments it_hash {V}. Arguments it_key {V}. Arguments it_val {V}.

(* buckets: exactly 2^d_log slots *)
Record dict (V : Type) := mkDict { d_log : nat; d_slots : list (option (item V)); d_count : N; d_removals : N }.
Arguments mkDict {V}. Arguments d_log {V}. Arguments d_slots {V}. Arguments d_count {V}. Arguments d_removals {V}.

Definition empty_dict {V} : dict V := mkDict 4 (repeatN None 16) 0 0.

Definition slot {V} (d : dict V) (i : N) : option (item V) := nth (N.to_nat i) (d_slots d) None.

Fixpoint set_nth {A} (l : list A) (n : nat) (x : A) : list A :=
  match l, n with
  | [], _ => []
  | _ :: r, O => x :: r
  | y :: r, S n' => y :: set_nth r n' x
  end.

(* rehash(bucketCount): place every item at its index in the new table *)
Definition rehash_slots {V} (slots : list (option (item V))) (k : nat) : list (option (item V)) :=
  fold_left (fun acc o => match o with
                          | Some it => set_nth acc (N.to_nat (hash_to_index (it_hash it) k)) (Some it)
                          | None => acc end)
            slots (repeatN None (N.to_nat (pow2 k))).

Inductive outcome (A : Type) := Ok (a : A) | Diverge.
Arguments Ok {A}. Arguments Diverge {A}.

(* the doubling loop of store: smallest k' > k at which the two hashes fall in different buckets *)
Fixpoint grow_until (fuel : nat) (k : nat) (h1 h2 : N) : option nat :=
  match fuel with
  | O => None
  | S f => let k' := S k in
           if N.eqb (h1 mod pow2 k') (h2 mod pow2 k') then grow_until f k' h1 h2 else Some k'
  end.

(* store(key, val) *)
Definition store {V} (d : dict V) (key : bytes) (h : N) (v : V) : outcome (dict V) :=
  let i := hash_to_index h (d_log d) in
  match slot d i with
  | Some it =>
    if bytes_eqb (it_key it) key then
      Ok (mkDict (d_log d) (set_nth (d_slots d) (N.to_nat i) (Some (mkItem (it_hash it) key v))) (d_count d) (d_removals d))
    else
      match grow_until (32 - d_log d) (d_log d) (it_hash it) h with
      | Some k' =>
        let slots := rehash_slots (d_slots d) k' in
        Ok (mkDict k' (set_nth slots (N.to_nat (hash_to_index h k')) (Some (mkItem h key v))) (d_count d + 1) (d_removals d))
      | None => Diverge     (* the Go loop never ends when the hashes agree on their low 32 bits *)
      end
  | None =>
    Ok (mkDict (d_log d) (set_nth (d_slots d) (N.to_nat i) (Some (mkItem h key v))) (d_count d + 1) (d_removals d))
  end.

Definition get {V} (d : dict V) (key : bytes) (h : N) : option V :=
  match slot d (hash_to_index h (d_log d)) with
  | Some it => if bytes_eqb (it_key it) key then Some (it_val it) else None
  | None => None
  end.

(* no even/odd neighbour pair is fully occupied *)
Fixpoint reducible {V} (slots : list (option (item V))) : bool :=
  match slots with
  | Some _ :: Some _ :: _ => false
  | _ :: _ :: r => reducible r
  | _ => true
  end.

(* remove(key) *)
Definition remove {V} (d : dict V) (key : bytes) (h : N) : dict V * bool :=
  let i := hash_to_index h (d_log d) in
  match slot d i with
  | Some it =>
    if bytes_eqb (it_key it) key then
      let slots := set_nth (d_slots d) (N.to_nat i) None in
      let removals := d_removals d + 1 in
      if (pow2 (d_log d) / 2 <? removals) then
        if (Nat.ltb 4 (d_log d)) && reducible slots then
          (mkDict (d_log d - 1) (rehash_slots slots (d_log d - 1)) (d_count d - 1) 0, true)
        else (mkDict (d_log d) slots (d_count d - 1) 0, true)
      else (mkDict (d_log d) slots (d_count d - 1) removals, true)
    else (d, false)
  | None => (d, false)
  end.

(* ---------- dictScanUnlocked ---------- *)
(* least occupied slot index >= i, or 2^k when none *)
Fixpoint next_occupied {V} (fuel : nat) (d : dict V) (i : N) : N :=
  match fuel with
  | O => pow2 (d_log d)
  | S f => if pow2 (d_log d) <=? i then pow2 (d_log d)
           else match slot d i with
                | Some _ => i
                | None => next_occupied f d (i + 1)
                end
  end.

(* one call: returns the next cursor and the emitted items, visiting order preserved.
   [keep it] is the MATCH/TYPE filter: a visited item is emitted only when it passes. *)
Fixpoint scan_loop {V} (fuel : nat) (d : dict V) (keep : item V -> bool) (cursor : N) (count : nat) (acc : list (item V))
  : N * list (item V) :=
  match fuel with
  | O => (cursor, rev acc)
  | S f =>
    match count with
    | O => (cursor, rev acc)
    | S _ =>
      let k := d_log d in
      let index := rev32 (cursor * pow2 (32 - k) mod 4294967296) in
      let '(acc', count') :=
        match slot d index with
        | Some it => if keep it then (it :: acc, Nat.pred count) else (acc, count)
        | None => (acc, count)
        end in
      let nxt := next_occupied (N.to_nat (pow2 k)) d (index + 1) in
      let cursor' := rev32 (nxt * pow2 (32 - k) mod 4294967296) in
      if N.eqb cursor' 0 then (0, rev acc') else scan_loop f d keep cursor' count' acc'
    end
  end.

Definition scan_call {V} (d : dict V) (keep : item V -> bool) (cursor : N) (count : nat) : N * list (item V) :=
  scan_loop (S (N.to_nat (pow2 (d_log d)))) d keep (cursor mod pow2 (d_log d)) count [].

(* sanity: a small table *)
Example rev32_1 : rev32 1 = 2147483648. Proof. vm_compute. reflexivity. Qed.
Example idx_ex : hash_to_index 5 4 = 10. Proof. vm_compute. reflexivity. Qed.
