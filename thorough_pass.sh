#!/bin/bash
# thorough_pass.sh [Cnn...]: the thorough command of every (or the given) property on the unchanged tree;
# one line per property: exit code, wall time, VIOLATION lines
cd /verif
props="$@"; [ -z "$props" ] && props=$(seq -f "C%02g" 1 20)
for p in $props; do
  t0=$(date +%s)
  out=$(timeout 7200 ./check $p thorough 2>&1); rc=$?
  t1=$(date +%s)
  echo "$p rc=$rc wall=$((t1-t0))s $(echo "$out" | grep -c '^VIOLATION') violation(s) $(echo "$out" | grep -c '^KNOWN-FINDING') known"
  echo "$out" | grep -A2 '^VIOLATION' | head -8 | cut -c1-400
done
