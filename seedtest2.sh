#!/bin/bash
# seedtest2.sh <seed-dir> <Cnn> [seed]: like seedtest.sh but runs only the correspondence streams of the property
# (no Coq build) — for use while proof files are being repaired
d=$1; p=$2; sd=${3:-1}
export GOFLAGS=-mod=mod GOPROXY=off GOSUMDB=off GOTOOLCHAIN=local
cd /repo || exit 2
git diff --quiet || { echo "/repo dirty"; exit 2; }
if ! git apply --check "$d/patch.diff" 2>/dev/null; then echo "PATCH DOES NOT APPLY: $d"; exit 3; fi
git apply "$d/patch.diff"
cd /verif
./build.sh harness > /tmp/seedtest2_build.log 2>&1 || { echo "build failed"; git -C /repo checkout -- .; exit 4; }
streams=$(python3 -c "
import sys; sys.path.insert(0,'/verif'); import props; print(' '.join(props.PROPS['$p']['streams']))")
for s in $streams; do
  rm -f /tmp/seedtest2_$s.json
  ./build/harness run -prop $s -tier quick -seed $sd -model build/ocaml/model -replays /tmp/rp_seed2 -out /tmp/seedtest2_$s.json > /tmp/seedtest2_$s.log 2>&1
  python3 - $s <<'PY'
import json,sys
s=sys.argv[1]
try:
    e=json.load(open('/tmp/seedtest2_%s.json'%s))
    mm=e.get('mismatches') or []
    print('  stream',s,'histories',e.get('histories'),'mismatches',len(mm), e.get('infra_error') or '')
    for m in mm[:2]: print('     ',m['op'][:150],'|',m['why'][:220])
except Exception as ex: print('  stream',s,'no result',ex)
PY
done
git -C /repo checkout -- .
./build.sh harness > /dev/null 2>&1
