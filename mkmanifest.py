#!/usr/bin/env python3
"""mkmanifest.py — regenerate MANIFEST.json from props.py (run after adding a property)."""
import json, subprocess, sys
from props import PROPS
ALL = ["C%02d" % i for i in range(1, 21)]
PARTIAL_NOTE = {
}
NOT_YET = {}  # id -> reason, for properties without a registered check
hooks_commits = subprocess.run("git -C /repo log --format=%h --grep='^verif hook' ", shell=True, capture_output=True, text=True).stdout.split()
checks = []
for pid in ALL:
    if pid not in PROPS or not PROPS[pid]["theorems"]:
        continue
    c = PROPS[pid]
    checks.append({
        "property_id": pid,
        "quick_cmd": "./check %s quick" % pid,
        "thorough_cmd": "./check %s thorough" % pid,
        "evidence_file": "evidence/%s.json" % pid,
        "replay_cmd_template": "./check %s --replay {path}" % pid,
        "engine": "coq+harness",
        "level_claimed": {
            "category": "proof",
            "text": c["text"] + (" PARTIAL: " + c["partial"] if c["partial"] else ""),
            "design_ref": "DESIGN.md section 6, " + pid,
        },
        "level_note": "Theorems are about the hand-written Coq model (files %s; every Theorem in them is re-checked and audited with Print Assumptions on each run: no axioms). "
                      "The tie to /repo is the correspondence run of the same check (extracted model vs real emulator built from the working tree with -tags verif). "
                      "Trusted: Coq kernel, extraction (ExtrOcamlBasic only), OCaml driver, Go harness/comparator. %s" % (", ".join(f + ".v" for f in c["files"]), " ".join(c["assumptions"][-1:])),
        "technique": "machine-checked proof in Coq (model theorems by induction/case analysis) + differential correspondence of the extracted model against the emulator",
    })
claimed = {c["property_id"] for c in checks}
na = [{"property_id": p, "reason": NOT_YET.get(p, "check under construction in this round: model/theorems or correspondence stream not yet registered (see DESIGN.md section 6)")} for p in ALL if p not in claimed]
m = {
    "version": 1,
    "setup_cmd": "./build.sh all",
    "hooks": {
        "guard": "verif",
        "enable": "go build -tags verif (harness module /verif/harness with replace github.com/jimsnab/go-redisemu => /repo)",
        "baseline_off_cmd": "cd /repo && GOFLAGS=-mod=mod GOPROXY=off GOSUMDB=off GOTOOLCHAIN=local go test -json -vet=off -count=1 -timeout 25m ./...",
        "source_commits": hooks_commits,
        "add_only": True,
    },
    "engines": [
        {"name": "coq", "path": "coq/", "serves_properties": sorted(claimed), "kind_free_text": "Coq 8.16.1 development: executable model + theorems; full .vo build by build.sh"},
        {"name": "ocaml-model", "path": "ocaml/driver.ml", "serves_properties": sorted(claimed), "kind_free_text": "model extracted with ExtrOcamlBasic only, line-protocol driver"},
        {"name": "harness", "path": "harness/", "serves_properties": sorted(claimed), "kind_free_text": "Go: child-process emulator from /repo's working tree (-tags verif), raw TCP driver, generators, comparator, shrinking"},
    ],
    "checks": checks,
    "not_applicable": na,
    "notes": "All 20 properties are intended to be claimed (DESIGN.md); entries under not_applicable are checks still being built, not properties judged out of reach.",
}
json.dump(m, open("MANIFEST.json", "w"), indent=1)
print("claimed:", sorted(claimed))
