(* driver.ml — line-protocol front end for the extracted model (trusted glue).
   stdin:  S <cid> <now_ns> <hexarg>...   one command of connection cid
           CLOSE <cid> | RESET | QUIT
   stdout: one line per S: "R <0|1 would-block> <s-expression of the wire reply>" *)
module M = Model

let rec pos_of_int n = if n = 1 then M.XH else if n land 1 = 1 then M.XI (pos_of_int (n lsr 1)) else M.XO (pos_of_int (n lsr 1))
let n_of_int n = if n = 0 then M.N0 else M.Npos (pos_of_int n)
let z_of_int n = if n = 0 then M.Z0 else if n > 0 then M.Zpos (pos_of_int n) else M.Zneg (pos_of_int (-n))
let rec int_of_pos = function M.XH -> 1 | M.XO p -> 2 * int_of_pos p | M.XI p -> 2 * int_of_pos p + 1
let int_of_n = function M.N0 -> 0 | M.Npos p -> int_of_pos p
(* decimal text of an arbitrary Z without going through OCaml ints *)
let rec pos_to_string p =
  (* p can exceed 62 bits (e.g. 2^63); use a simple bignum on int lists, base 10^9 is overkill: use Z arithmetic by strings *)
  let rec bits p acc = match p with M.XH -> 1 :: acc | M.XO q -> bits q (0 :: acc) | M.XI q -> bits q (1 :: acc) in
  let bl = bits p [] in
  (* bl is MSB first *)
  let digits = ref [0] in (* little endian decimal digits *)
  let double_add b =
    let carry = ref b in
    digits := List.map (fun d -> let v = d * 2 + !carry in carry := v / 10; v mod 10) !digits;
    if !carry > 0 then digits := !digits @ [!carry] in
  List.iter double_add bl;
  String.concat "" (List.rev_map string_of_int !digits)
and z_to_string = function M.Z0 -> "0" | M.Zpos p -> pos_to_string p | M.Zneg p -> "-" ^ pos_to_string p

let bytes_of_string s = List.init (String.length s) (fun i -> n_of_int (Char.code s.[i]))
let hex_of_bytes (b : M.n list) =
  if b = [] then "-" else String.concat "" (List.map (fun x -> Printf.sprintf "%02x" (int_of_n x)) b)
let string_of_hex h =
  if h = "-" then "" else
  String.init (String.length h / 2) (fun i -> Char.chr (int_of_string ("0x" ^ String.sub h (2*i) 2)))

let rec sx (r : M.resp) : string =
  let many tag l = "(" ^ tag ^ String.concat "" (List.map (fun x -> " " ^ sx x) l) ^ ")" in
  let kvs tag l = "(" ^ tag ^ String.concat "" (List.map (fun (k, v) -> " " ^ sx k ^ " " ^ sx v) l) ^ ")" in
  match r with
  | M.RSimple s -> "(simple " ^ hex_of_bytes s ^ ")"
  | M.RErr s -> "(err " ^ hex_of_bytes s ^ ")"
  | M.RInt z -> "(int " ^ z_to_string z ^ ")"
  | M.RBulk b -> "(bulk " ^ hex_of_bytes b ^ ")"
  | M.RNil -> "(nil)"
  | M.RNull -> "(null)"
  | M.RArr l -> many "arr" l
  | M.RArrU l -> many "arru" l
  | M.RMap l -> kvs "map" l
  | M.RSet l -> many "set" l
  | M.RPairs l -> kvs "pairs" l
  | M.RFlatU l -> kvs "flatu" l
  | M.RDouble t -> "(double " ^ hex_of_bytes t ^ ")"
  | M.RBool b -> if b then "(bool 1)" else "(bool 0)"
  | M.RBig t -> "(big " ^ hex_of_bytes t ^ ")"
  | M.RVerb (f, t) -> "(verb " ^ hex_of_bytes f ^ " " ^ hex_of_bytes t ^ ")"
  | M.RApprox (z, u) -> "(approx " ^ z_to_string z ^ " " ^ z_to_string u ^ ")"
  | M.RPick (c, n, single, wv) ->
      "(pick " ^ z_to_string n ^ (if single then " 1" else " 0") ^ (if wv then " 1" else " 0")
      ^ String.concat "" (List.map (fun x -> " " ^ sx x) c) ^ ")"
  | M.RScan (c, paired) ->
      "(scan " ^ (if paired then "1" else "0") ^ String.concat "" (List.map (fun x -> " " ^ sx x) c) ^ ")"
  | M.RAny -> "(any)"

let rec nat_of_int n = if n <= 0 then M.O else M.S (nat_of_int (n - 1))
let rec int_of_nat = function M.O -> 0 | M.S n -> 1 + int_of_nat n

let rec px (v : M.pval) : string =
  let many tag l = "(" ^ tag ^ String.concat "" (List.map (fun x -> " " ^ px x) l) ^ ")" in
  match v with
  | M.PSimple b -> "(simple " ^ hex_of_bytes b ^ ")"
  | M.PErr b -> "(err " ^ hex_of_bytes b ^ ")"
  | M.PInt z -> "(int " ^ z_to_string z ^ ")"
  | M.PBulk b -> "(bulk " ^ hex_of_bytes b ^ ")"
  | M.PNil -> "(nil)"
  | M.PNull -> "(null)"
  | M.PBool b -> if b then "(bool 1)" else "(bool 0)"
  | M.PArr l -> many "arr" l
  | M.PSet l -> "(set " ^ String.concat " " (List.sort compare (List.map px l)) ^ ")"
  | M.PMap l -> "(map" ^ String.concat "" (List.map (fun (k, v) -> " " ^ px k ^ " " ^ px v) l) ^ ")"

(* hashes are 64-bit: read them as decimal strings into N without OCaml ints *)
let n_of_decimal (s : string) : M.n =
  let ten = n_of_int 10 in
  let acc = ref M.N0 in
  String.iter (fun ch -> acc := M.N.add (M.N.mul !acc ten) (n_of_int (Char.code ch - 48))) s;
  !acc
let rec pos_to_dec p = pos_to_string p
let n_to_string = function M.N0 -> "0" | M.Npos p -> pos_to_string p

let () =
  let st = ref M.state0 in
  let dict = ref M.dict_empty in
  let snaps : (int, M.state) Hashtbl.t = Hashtbl.create 64 in
  let wcfg = ref M.w_cfg0 in
  let hb h = bytes_of_string (string_of_hex h) in
  let wdump (c : M.cfg) =
    let b = Buffer.create 256 in
    Buffer.add_string b "lists";
    List.iter (fun (k, l) -> Buffer.add_string b (" " ^ hex_of_bytes k ^ ":" ^ String.concat "," (List.map hex_of_bytes l))) c.M.lists;
    Buffer.add_string b " | queues";
    List.iter (fun (k, q) -> Buffer.add_string b (" " ^ hex_of_bytes k ^ ":" ^ String.concat "," (List.map n_to_string q))) c.M.queues;
    Buffer.add_string b " | tokens";
    List.iter (fun i -> Buffer.add_string b (" " ^ n_to_string i)) c.M.tokens;
    Buffer.add_string b " | pcs";
    List.iter (fun (i, p) ->
      let ks l = String.concat "," (List.map hex_of_bytes l) in
      Buffer.add_string b (" " ^ n_to_string i ^ "=" ^ (match p with
        | M.Idle -> "idle"
        | M.Registered l -> "registered:" ^ ks l
        | M.Waiting l -> "waiting:" ^ ks l
        | M.Woken l -> "woken:" ^ ks l
        | M.Finished None -> "finished:nil"
        | M.Finished (Some (k, x)) -> "finished:" ^ hex_of_bytes k ^ "/" ^ hex_of_bytes x))) c.M.pcs;
    Buffer.contents b in
  let wdo (l : M.label) =
    match M.w_step !wcfg l with
    | Some c -> wcfg := c; print_string ("OK " ^ wdump c ^ "\n")
    | None -> print_string "DISABLED\n" in
  let cidn s = n_of_int (int_of_string s) in
  (try
    while true do
      let line = input_line stdin in
      let toks = List.filter (fun s -> s <> "") (String.split_on_char ' ' line) in
      (match toks with
       | "S" :: cid :: now :: args ->
           let cid = n_of_int (int_of_string cid) in
           let now = z_of_int (int_of_string now) in
           let cmd = List.map (fun h -> bytes_of_string (string_of_hex h)) args in
           let o = M.step now !st cid cmd in
           st := o.M.o_st;
           let w = M.wire !st cid o.M.o_reply in
           print_string ("R " ^ (if o.M.o_block then "1 " else "0 ") ^ sx w ^ "\n")
       | ["CONN"; cid] ->
           (* what the model's session of this connection holds: database, protocol, name, queued commands or - *)
           let c = M.get_conn !st (n_of_int (int_of_string cid)) in
           print_string (Printf.sprintf "CONN %d %s %s %s\n" (int_of_n c.M.c_sel) (z_to_string c.M.c_resp) (hex_of_bytes c.M.c_name)
             (match c.M.c_queue with None -> "-" | Some q -> string_of_int (List.length q)))
       | ["CLOSE"; cid] -> st := M.close_conn !st (n_of_int (int_of_string cid)); print_string "OK\n"
       | ["RESET"] -> st := M.state0; print_string "OK\n"
       | ["SNAP"; n] -> Hashtbl.replace snaps (int_of_string n) !st; print_string "OK\n"
       | ["RESTORE"; n] -> (match Hashtbl.find_opt snaps (int_of_string n) with
                            | Some s -> st := s; print_string "OK\n"
                            | None -> print_string "ERR no snapshot\n")
       | ["STATEHASH"] -> print_string (Digest.to_hex (Digest.string (Marshal.to_string !st [])) ^ "\n")
       | ["P"; h] ->
           let c = bytes_of_string (string_of_hex h) in
           (match M.parse c with
            | M.Done (v, n) -> print_string ("Done " ^ string_of_int (int_of_nat n) ^ " " ^ px v ^ "\n")
            | M.Invalid -> print_string "Invalid\n"
            | M.Unsupported -> print_string "Unsupported\n"
            | M.Panic _ -> print_string "Panic\n")
       | ["DRESET"] -> dict := M.dict_empty; print_string "OK\n"
       | ["DSTORE"; k; h] ->
           (match M.dict_store !dict (bytes_of_string (string_of_hex k)) (n_of_decimal h) with
            | M.Ok d -> dict := d; print_string "OK\n"
            | M.Diverge -> print_string "DIVERGE\n")
       | ["DREMOVE"; k; h] ->
           let (d, ex) = M.dict_remove !dict (bytes_of_string (string_of_hex k)) (n_of_decimal h) in
           dict := d; print_string (if ex then "1\n" else "0\n")
       | ["DLAYOUT"] ->
           let d = !dict in
           let b = Buffer.create 256 in
           Buffer.add_string b (Printf.sprintf "%d %s %s" (int_of_nat d.M.d_log) (n_to_string d.M.d_count) (n_to_string d.M.d_removals));
           List.iteri (fun i o -> match o with
             | Some it -> Buffer.add_string b (Printf.sprintf " %s:%d" (hex_of_bytes it.M.it_key) i)
             | None -> ()) d.M.d_slots;
           print_string (Buffer.contents b ^ "\n")
       | ["DSCAN"; c; n] ->
           let (c', items) = M.dict_scan !dict (n_of_decimal c) (nat_of_int (int_of_string n)) in
           print_string (n_to_string c' ^ String.concat "" (List.map (fun it -> " " ^ hex_of_bytes it.M.it_key) items) ^ "\n")
       | "LOADDIR" :: b :: ents ->
           (* LOADDIR <basehex> (<sub 0|1> <namehex> <loads 0|1>)*: the walk of PersistDir.v *)
           let rec triples = function
             | s :: nm :: ok :: r -> ((s = "1", hb nm), ok = "1") :: triples r
             | _ -> [] in
           (match M.load_plan (hb b) (triples ents) with
            | None -> print_string "PANIC\n"
            | Some l ->
                let l = List.sort compare (List.map (fun (z, p) -> (z_to_string z, int_of_n p)) l) in
                print_string ("PLAN" ^ String.concat "" (List.map (fun (z, p) -> " " ^ z ^ ":" ^ string_of_int p) l) ^ "\n"))
       | "CXN" :: labels ->
           (* CXN <label>...: the run of Cxn.v from c0; OK <pc> <closing> <bag size> or REJECT <position> <state before> *)
           let lab = function
             | "new" -> M.LNew | "take.init" -> M.LTake M.EInit | "take.wait" -> M.LTake M.EWait | "take.disp" -> M.LTake M.EDisp
             | "take.term" -> M.LTake M.ETerm | "qloop.wait" -> M.LQLoop M.EWait | "qloop.disp" -> M.LQLoop M.EDisp | "qloop.term" -> M.LQLoop M.ETerm
             | "waitgo" -> M.LWaitGo | "waitskip" -> M.LWaitSkip | "closingseen" -> M.LClosingSeen | "setwaiting" -> M.LSetWaiting
             | "readend.ok" -> M.LReadEnd true | "readend.err" -> M.LReadEnd false | "dispdone.ok" -> M.LDispDone true | "dispdone.err" -> M.LDispDone false
             | "qdisp" -> M.LQDisp | "reqclose" -> M.LReqClose false | "reqclose.w" -> M.LReqClose true | "terminated" -> M.LTerminated
             | s -> failwith ("unknown connection label " ^ s) in
           let pcs c = (match c.M.pc0 with
             | M.PNew -> "PNew" | M.PIdle -> "PIdle" | M.PInit -> "PInit" | M.PWait0 -> "PWait0" | M.PWait1 -> "PWait1" | M.PReading -> "PReading"
             | M.PRead b -> if b then "PRead.ok" else "PRead.err" | M.PTerm -> "PTerm" | M.PDone -> "PDone")
             ^ (if c.M.closing then " closing" else " open") ^ (if c.M.waiting then " waiting" else "") ^ " queued=" ^ string_of_int (List.length c.M.bag)
             ^ (match c.M.disp with M.DNone -> "" | M.DRunning -> " dispatcher-running" | M.DWritten -> " dispatcher-written") in
           let rec go c i = function
             | [] -> print_string ("OK " ^ pcs c ^ "\n")
             | l :: r -> (match M.cstep c (lab l) with
                          | Some c' -> go c' (i + 1) r
                          | None -> print_string ("REJECT " ^ string_of_int i ^ " " ^ pcs c ^ "\n")) in
           go M.c0 0 labels
       | ["W"; "RESET"] -> wcfg := M.w_cfg0; print_string "OK\n"
       | "W" :: "PUSH" :: k :: xs -> wdo (M.LPush (hb k, List.map hb xs))
       | ["W"; "STEAL"; k] -> wdo (M.LSteal (hb k))
       | "W" :: "START" :: i :: ks -> wdo (M.LStart (cidn i, List.map hb ks))
       | ["W"; "SECOND"; i] -> wdo (M.LSecond (cidn i))
       | ["W"; "WAKE"; i] -> wdo (M.LWake (cidn i))
       | ["W"; "RETRY"; i] -> wdo (M.LRetry (cidn i))
       | ["W"; "GIVEUP"; i] -> wdo (M.LGiveUp (cidn i))
       | ["W"; "RESETC"; i] -> wdo (M.LReset (cidn i))
       | ["W"; "DUMP"] -> print_string ("OK " ^ wdump !wcfg ^ "\n")
       | ["QUIT"] -> raise End_of_file
       | _ -> print_string "ERR bad line\n");
      flush stdout
    done
  with End_of_file -> ())
