#!/bin/bash
# confirm_seed.sh <src-dir> <id> <property>: confirm a seeded change in a scratch worktree of /repo HEAD and
# file it under /verif/seeded/<id>/
src=$1; id=$2; prop=$3
export GOFLAGS=-mod=mod GOPROXY=off GOSUMDB=off GOTOOLCHAIN=local
wt=/tmp/confirm_$id
rm -rf $wt; git -C /repo worktree add -q --detach $wt HEAD || exit 2
cd $wt
cp $src/demo_test.go zz_seed_demo_test.go
names=$(grep -o "^func Test[A-Za-z0-9_]*" zz_seed_demo_test.go | sed 's/func //' | paste -sd'|')
clean=$(go test $SEED_GOTEST_FLAGS -vet=off -count=1 -run "^($names)\$" . 2>&1 | grep -c "^ok")
git apply $src/patch.diff || { echo "patch does not apply"; cd /; git -C /repo worktree remove --force $wt; exit 3; }
build=$(go build ./... 2>&1 | wc -l)
mutated=$(go test $SEED_GOTEST_FLAGS -vet=off -count=1 -run "^($names)\$" . 2>&1 | grep -c "^FAIL")
rm zz_seed_demo_test.go
suite=$(go test -vet=off -count=1 -timeout 10m -skip 'TestRedisUnblock|TestRedisSet$' ./... 2>&1 | grep -c "^ok")
cd /; git -C /repo worktree remove --force $wt
echo "$id: demo-on-clean-tree-passes=$clean build-errors=$build demo-with-change-fails=$mutated suite-passes-with-change=$suite"
if [ "$clean" = 1 ] && [ "$build" = 0 ] && [ "$mutated" -ge 1 ] && [ "$suite" = 1 ]; then
  mkdir -p /verif/seeded/$id
  cp $src/patch.diff /verif/seeded/$id/patch.diff
  cp $src/demo_test.go /verif/seeded/$id/demo_test.go
  python3 - "$src" "$id" "$prop" "$names" <<'PY'
import json,sys
src,id,prop,names=sys.argv[1:5]
m=json.load(open(src+'/meta.json'))
out={"property":prop,"summary":m.get("summary"),"needs":m.get("needs"),"files":m.get("files"),
 "confirmed":{"repo_head":"see git -C /repo log at the time of filing","demo_tests":names,
  "demo_passes_on_clean_tree":True,"demo_fails_with_change":True,"builds_with_change":True,
  "suite_passes_with_change":"go test -vet=off -count=1 -skip 'TestRedisUnblock|TestRedisSet$' ./... (the two skipped tests are flaky on the unchanged tree: a racy unblock and a wall-clock-phase EXAT check)"},
 "author_ran":m.get("ran")}
json.dump(out,open('/verif/seeded/%s/meta.json'%id,'w'),indent=1)
PY
  echo "filed /verif/seeded/$id"
fi
