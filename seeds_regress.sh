#!/bin/bash
# seeds_regress.sh [tier]: apply every filed seeded change to /repo in turn, run the check of its
# property, undo it; prints one line per seed (caught / MISSED / does-not-apply). Leaves /repo clean.
tier=${1:-quick}
cd /verif
git -C /repo diff --quiet || { echo "/repo has uncommitted changes"; exit 2; }
for d in /verif/seeded/*/; do
  id=$(basename $d)
  prop=$(python3 -c "import json;print(json.load(open('$d/meta.json'))['property'])")
  gap=$(python3 -c "import json;print('gap' if json.load(open('$d/meta.json')).get('caught') is False else '')")
  if ! git -C /repo apply --check $d/patch.diff 2>/dev/null; then echo "$id $prop does-not-apply"; continue; fi
  git -C /repo apply $d/patch.diff
  VERIF_SEED=${VERIF_SEED:-1} timeout 1500 ./check $prop $tier > build/seedreg_$id.log 2>&1; rc=$?
  git -C /repo checkout -- .
  if [ $rc = 1 ] && grep -q "^VIOLATION property=$prop" build/seedreg_$id.log; then
    echo "$id $prop caught: $(grep -m1 -A1 '^VIOLATION' build/seedreg_$id.log | tail -1 | cut -c1-200)"
  else
    if [ "$gap" = gap ]; then echo "$id $prop known gap (recorded as not caught in its meta.json)"; else echo "$id $prop MISSED (exit $rc)"; fi
  fi
done
