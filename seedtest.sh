#!/bin/bash
# seedtest.sh <seed-dir> <Cnn> [tier] — apply a seeded change to /repo, run the check, undo the change
d=$1; p=$2; tier=${3:-quick}
cd /repo || exit 2
if ! git apply --check "$d/patch.diff" 2>/dev/null; then echo "PATCH DOES NOT APPLY: $d"; exit 3; fi
git apply "$d/patch.diff"
cd /verif
VERIF_SEED=${VERIF_SEED:-1} ./check $p $tier > /tmp/seedtest_$p.log 2>&1; rc=$?
git -C /repo checkout -- .
echo "seed=$d prop=$p exit=$rc"
grep -m4 "VIOLATION\|^  " /tmp/seedtest_$p.log | cut -c1-300
exit 0
