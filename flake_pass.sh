#!/bin/bash
# flake_pass.sh <seed> [seed...]: every quick check on the unchanged tree with other PRNG seeds; any line printed is a problem
cd /verif
for sd in "$@"; do
  for i in $(seq -w 1 20); do p=C$i
    out=$(VERIF_SEED=$sd ./check $p quick 2>&1); rc=$?
    if [ $rc != 0 ] || echo "$out" | grep -q "^VIOLATION"; then echo "seed=$sd $p rc=$rc"; echo "$out" | grep -v "^KNOWN-FINDING" | head -6 | cut -c1-400; fi
  done
  echo "seed $sd done"
done
